------------------------------- MODULE Zemax -------------------------------
(* C20 - a sequential Zemax .zmx file and the prescription it denotes.        *)
(*                                                                            *)
(* A file is a sequence of keyword lines.  The reader is a line-dispatch      *)
(* state machine: one action per keyword, every other keyword stutters.       *)
(* `Finish` maps what was read to the prescription in the vocabulary of       *)
(* Lens.tla / harness/project.py (vertex z, radius R, conic k, coefficients,  *)
(* medium behind the surface, stop flag; aperture, fields, wavelengths).      *)
(* Stated from the file format and the property text, not from the code:      *)
(*   * every SURF block - the first (object) and the last (image) included -  *)
(*     is one surface;                                                        *)
(*   * CURV is a curvature: R * c = 1, plane for c = 0;                       *)
(*   * DISZ is the distance to the next vertex (INFINITY allowed on the       *)
(*     object); vertex 2 is the origin;                                       *)
(*   * an EVENASPH surface has sag  conic(r) + SUM_n PARM_n * r^(2n),  so     *)
(*     PARM n is the coefficient of r^(2n) (PARM 1 the r^2 term); a PARM      *)
(*     line that is absent denotes 0;                                         *)
(*   * GLAS name nd vd: the catalogue glass of that name - looked up in the   *)
(*     catalogues the file lists under GCAT, in that order, else in any       *)
(*     catalogue - and the model glass (nd, vd) when no catalogue has it;     *)
(*   * FTYP declares field type, number of fields and number of wavelengths;  *)
(*     XFLN/YFLN and WAVM may carry more entries than declared (Zemax pads);  *)
(*   * MODE NSC is not a sequential file: rejected.                           *)
(*                                                                            *)
(* Numbers are integers in units of 1/U (U = 1024): every generated literal   *)
(* is a short decimal whose binary value is exact, and every curvature on the *)
(* grid divides U*U, so the denoted radius is exact as well.                  *)
EXTENDS Integers, Sequences, FiniteSets, TLC

CONSTANTS U,          \* scale of the numeric literals
          MinSurf, MaxSurf,   \* SURF blocks per file: MinSurf..MaxSurf
          Modes,      \* subset of {"SEQ", "NSC"}
          Apertures,  \* set of <<keyword, value>>, keyword in ENPD / FNUM / OBNA
          GcatLists,  \* set of sequences of catalogue names (<<>> = no GCAT line)
          FieldTypes, \* subset of {0, 1}: angle / object height
          FieldPairs, \* set of <<x, y>>
          MaxFld, PadFld,   \* declared fields 1..MaxFld; PadFld: numbers of surplus entries written
          Waves, MaxWl, PadWl,
          PwavFirst,  \* subset of BOOLEAN: PWAV before / after the WAVM lines
          Types,      \* subset of {"STANDARD", "EVENASPH"}
          TypeOpt,    \* subset of BOOLEAN: TRUE = the TYPE line may be omitted (means STANDARD)
          Curvs, Thicks, ObjThicks, Conics,
          ParmRows,   \* set of sequences (length <= 8): the PARM values written for an EVENASPH
          Glasses,    \* set of [name, nd, vd, bare]: bare = GLAS line carries the name only
          ImageFree,  \* TRUE: the last block is as free as any other; FALSE: a bare plane
          Noise, MaxNoise,  \* lines with unknown keywords, and how many may be interleaved
          Catalogue,  \* environment: set of <<catalogue, glass name>>
          Export,     \* TRUE: print complete files with the prescription they denote
          ExportMod   \* print those whose checksum is 0 modulo this (1 = all)

INF == 1073741824                 \* stands for +infinity (DISZ INFINITY, plane radius)
ANY == "any"                      \* unobservable (vertex of the only surface of a 1-surface file)

Ln(kw, s, a) == [kw |-> kw, s |-> s, a |-> a]      \* keyword, string arguments, numeric arguments

VARIABLES lines,   \* the file written so far
          rd,      \* reader state
          g,       \* generator state: where the grammar of well-formed files stands
          done,    \* end of file reached
          out      \* the prescription the file denotes (set at end of file)
vars == <<lines, rd, g, done, out>>

--------------------------------------------------------------------------
(* The reader: module ZemaxReader (shared with the trace spec Trace_Zemax,   *)
(* where the numbers are exact dyadic records instead of integers).          *)
INSTANCE ZemaxReader WITH Zero <- 0

--------------------------------------------------------------------------
(* Finish: the prescription denoted by what was read                        *)
Radius(c) == IF c = 0 THEN INF ELSE (U * U) \div c          \* R * c = 1  (in units: R * c = U * U)
\* the catalogue glass of this name: first listed catalogue that has it, else any catalogue
Vendors(name) == {e[1] : e \in {x \in Catalogue : x[2] = name}}
RECURSIVE FirstListed(_, _)
FirstListed(gc, name) == IF gc = <<>> THEN ""
                         ELSE IF <<gc[1], name>> \in Catalogue THEN gc[1] ELSE FirstListed(Tail(gc), name)
Medium(gc, b) ==
  IF b.glass = <<>> THEN [kind |-> "air"]
  ELSE LET gl == b.glass[1]
           v == FirstListed(gc, gl.name) IN
       IF v # "" THEN [kind |-> "cat", name |-> gl.name, from |-> {v}]
       ELSE IF Vendors(gl.name) # {} THEN [kind |-> "cat", name |-> gl.name, from |-> Vendors(gl.name)]
       ELSE [kind |-> "model", nd |-> gl.nd, vd |-> gl.vd]
RECURSIVE VertexOf(_, _)
VertexOf(bs, j) ==            \* z of surface j: object at -t1, surface 2 at the origin, then running sum
  IF j = 1 THEN (IF Len(bs) = 1 THEN ANY ELSE IF bs[1].t = INF THEN -INF ELSE -bs[1].t)
  ELSE IF j = 2 THEN 0
  ELSE VertexOf(bs, j - 1) + bs[j-1].t
IsAsph(b) == b.type = "EVENASPH"
Surface(gc, bs, j) ==
  LET b == bs[j]
      R == Radius(b.c) IN
  [z |-> VertexOf(bs, j), R |-> R,
   k |-> IF R = INF THEN 0 ELSE b.k,                 \* the conic of a surface without curvature has no effect
   coef |-> IF IsAsph(b) THEN b.parm ELSE [n \in 1..8 |-> 0],
   med |-> Medium(gc, b), stop |-> b.stop]
StopIndex(bs) == IF \E j \in 1..Len(bs) : bs[j].stop
                 THEN CHOOSE j \in 1..Len(bs) : bs[j].stop /\ \A i \in 1..(j-1) : ~bs[i].stop
                 ELSE 0
Finish(r) ==
  IF r.mode # "SEQ" THEN [reject |-> TRUE]
  ELSE LET bs == r.blocks \o r.cur
           nf == IF Len(r.xs) < Len(r.ys) THEN Len(r.xs) ELSE Len(r.ys) IN
       [reject |-> FALSE,
        surf |-> [j \in 1..Len(bs) |-> Surface(r.gcat, bs, j)],
        stop |-> StopIndex(bs),
        ap |-> r.ap,
        ftype |-> IF r.ftype = 0 THEN "angle" ELSE IF r.ftype = 1 THEN "object_height" ELSE "unsupported",
        fields |-> {<<r.xs[i], r.ys[i]>> : i \in 1..nf},
        wl |-> r.wl, primary |-> r.pw]

--------------------------------------------------------------------------
(* The generator: the grammar of well-formed files, one line per step, in    *)
(* the order Zemax writes them.  g.ph names the next expected section.        *)
GInit(n) == [ph |-> "mode", target |-> n, n |-> 0, p |-> 0, i |-> 0, row |-> <<>>, fp |-> <<>>,
             padf |-> 0, padw |-> 0, pwdone |-> FALSE, stopUsed |-> FALSE, noise |-> 0]
Init == /\ lines = <<>> /\ rd = RdInit /\ done = FALSE /\ out = <<>>
        /\ \E n \in MinSurf..MaxSurf : g = GInit(n)
Emit(l, g2) == /\ ~done /\ lines' = Append(lines, l) /\ rd' = Read(rd, l) /\ g' = g2
               /\ UNCHANGED <<done, out>>
Last == g.n = g.target               \* the open block is the last one
Obj  == g.n = 1                      \* the open block is the object surface
Bare == Obj \/ (Last /\ ~ImageFree)  \* object / constrained image: a plain plane, no glass, no stop

MODE == g.ph = "mode" /\ \E m \in Modes : Emit(Ln("MODE", <<m>>, <<>>), [g EXCEPT !.ph = "ap"])
ENPD == g.ph = "ap" /\ \E a \in Apertures : a[1] = "ENPD" /\ Emit(Ln("ENPD", <<>>, <<a[2]>>), [g EXCEPT !.ph = "gcat"])
FNUM == g.ph = "ap" /\ \E a \in Apertures : a[1] = "FNUM" /\ Emit(Ln("FNUM", <<>>, <<a[2], 0>>), [g EXCEPT !.ph = "gcat"])
OBNA == g.ph = "ap" /\ \E a \in Apertures : a[1] = "OBNA" /\ Emit(Ln("OBNA", <<>>, <<a[2], 0>>), [g EXCEPT !.ph = "gcat"])
GCAT == g.ph = "gcat" /\ \E gl \in GcatLists : gl # <<>> /\ Emit(Ln("GCAT", gl, <<>>), [g EXCEPT !.ph = "ftyp"])
FTYP == /\ g.ph \in {"gcat", "ftyp"} /\ (g.ph = "gcat" => <<>> \in GcatLists)
        /\ \E ft \in FieldTypes, nf \in 1..MaxFld, nw \in 1..MaxWl, pf \in PadFld, pw \in PadWl :
              Emit(Ln("FTYP", <<>>, <<ft, nf, nw>>), [g EXCEPT !.ph = "pick", !.padf = pf, !.padw = pw, !.fp = <<>>])
\* internal step of the generator: choose the next field pair (keeps XFLN/YFLN consistent)
PickField == /\ ~done /\ g.ph = "pick" /\ Len(g.fp) < rd.nf + g.padf
             /\ \E q \in FieldPairs : g' = [g EXCEPT !.fp = Append(@, q)]
             /\ UNCHANGED <<lines, rd, done, out>>
XFLN == /\ g.ph = "pick" /\ Len(g.fp) = rd.nf + g.padf
        /\ Emit(Ln("XFLN", <<>>, [i \in 1..Len(g.fp) |-> g.fp[i][1]]), [g EXCEPT !.ph = "yfln"])
YFLN == /\ g.ph = "yfln"
        /\ Emit(Ln("YFLN", <<>>, [i \in 1..Len(g.fp) |-> g.fp[i][2]]), [g EXCEPT !.ph = "wav", !.i = 0, !.fp = <<>>])
PWAV == /\ g.ph = "wav" /\ ~g.pwdone
        /\ IF g.i = 0 THEN TRUE \in PwavFirst ELSE g.i = rd.nw + g.padw
        /\ \E p \in 1..rd.nw : Emit(Ln("PWAV", <<>>, <<p>>),
                                    [g EXCEPT !.pwdone = TRUE, !.ph = IF g.i = 0 THEN "wav" ELSE "surf"])
WAVM == /\ g.ph = "wav" /\ g.i < rd.nw + g.padw
        /\ (g.i = 0 /\ ~g.pwdone => FALSE \in PwavFirst)
        /\ \E v \in Waves : Emit(Ln("WAVM", <<>>, <<g.i + 1, v>>),
                                 [g EXCEPT !.i = @ + 1,
                                           !.ph = IF g.i + 1 = rd.nw + g.padw /\ g.pwdone THEN "surf" ELSE "wav"])
BlockClosed == g.ph = "blk" /\ g.p >= 6           \* CURV and DISZ written
SURF == /\ (g.ph = "surf" \/ BlockClosed) /\ g.n < g.target
        /\ Emit(Ln("SURF", <<>>, <<g.n>>), [g EXCEPT !.ph = "blk", !.n = @ + 1, !.p = 1, !.i = 0, !.row = <<>>])
STOP == /\ g.ph = "blk" /\ g.p <= 1 /\ ~g.stopUsed /\ ~(g.n = 1) /\ ~(g.n = g.target /\ ~ImageFree)
        /\ Emit(Ln("STOP", <<>>, <<>>), [g EXCEPT !.p = 2, !.stopUsed = TRUE])
TYPE == /\ g.ph = "blk" /\ g.p <= 2
        /\ \E ty \in Types : /\ (Bare => ty = "STANDARD")
                             /\ \E row \in (IF ty = "EVENASPH" THEN ParmRows ELSE {<<>>}) :
                                   Emit(Ln("TYPE", <<ty>>, <<>>), [g EXCEPT !.p = 3, !.row = row, !.i = 0])
CURV == /\ g.ph = "blk" /\ g.p <= 3 /\ (g.p <= 2 => TRUE \in TypeOpt)
        /\ \E c \in (IF Bare THEN {0} ELSE Curvs) : Emit(Ln("CURV", <<>>, <<c>>), [g EXCEPT !.p = 4])
PARM == /\ g.ph = "blk" /\ g.p = 4 /\ g.i < Len(g.row)
        /\ Emit(Ln("PARM", <<>>, <<g.i + 1, g.row[g.i + 1]>>), [g EXCEPT !.i = @ + 1])
DISZ == /\ g.ph = "blk" /\ g.p = 4 /\ g.i = Len(g.row)
        /\ \E t \in (IF Obj THEN ObjThicks ELSE IF Last /\ ~ImageFree THEN {0} ELSE Thicks) :
              Emit(Ln("DISZ", <<>>, <<t>>), [g EXCEPT !.p = 6])
GLAS == /\ g.ph = "blk" /\ g.p = 6 /\ ~Bare
        /\ \E gl \in Glasses : Emit(Ln("GLAS", <<gl.name>>, IF gl.bare THEN <<>> ELSE <<gl.nd, gl.vd>>),
                                    [g EXCEPT !.p = 7])
CONI == /\ g.ph = "blk" /\ g.p \in {6, 7} /\ ~Bare
        /\ \E k \in Conics : Emit(Ln("CONI", <<>>, <<k>>), [g EXCEPT !.p = 8])
\* a line whose keyword the reader does not know, anywhere in the file
UNKNOWN == /\ g.noise < MaxNoise
           /\ \E l \in Noise : Emit(l, [g EXCEPT !.noise = @ + 1])
\* compact forms for export: a line as <<keyword, strings, numbers>>
FileOf(ls) == [i \in 1..Len(ls) |-> <<ls[i].kw, ls[i].s, ls[i].a>>]
\* a cheap checksum of the text, to export a fixed pseudo-random subset of a large grid
RECURSIVE SumAbs(_)
SumAbs(a) == IF a = <<>> THEN 0 ELSE (((IF a[1] < 0 THEN -a[1] ELSE a[1]) % 1009) + SumAbs(Tail(a))) % 1009
RECURSIVE Checksum(_, _)
Checksum(ls, i) == IF i > Len(ls) THEN 0
                   ELSE (((i * (SumAbs(ls[i].a) + Len(ls[i].s) + 1)) % 1009) + (31 * Checksum(ls, i + 1))) % 1009
End == /\ ~done /\ BlockClosed /\ g.n = g.target
       /\ done' = TRUE /\ out' = Finish(rd) /\ UNCHANGED <<lines, rd, g>>
       /\ (Export /\ (Checksum(lines, 1) % ExportMod) = 0 => PrintT("FILE " \o ToString(<<FileOf(lines), Finish(rd)>>)))

Next == \/ MODE \/ ENPD \/ FNUM \/ OBNA \/ GCAT \/ FTYP \/ PickField \/ XFLN \/ YFLN \/ PWAV \/ WAVM
        \/ SURF \/ STOP \/ TYPE \/ CURV \/ PARM \/ DISZ \/ GLAS \/ CONI \/ UNKNOWN \/ End
Spec == Init /\ [][Next]_vars

--------------------------------------------------------------------------
(* What the model must satisfy - the prescription re-read declaratively     *)
(* from the text of the file (not from the reader's registers).              *)
Idx(kw) == {i \in 1..Len(lines) : lines[i].kw = kw}
SurfIdx == Idx("SURF")
NSurfLines == Cardinality(SurfIdx)
\* position in the file of the j-th SURF line, and the extent of its block
RECURSIVE NthSurf(_, _)
NthSurf(j, from) == IF lines[from].kw = "SURF" THEN (IF j = 1 THEN from ELSE NthSurf(j - 1, from + 1))
                    ELSE NthSurf(j, from + 1)
BlockLo(j) == NthSurf(j, 1)
BlockHi(j) == IF j = NSurfLines THEN Len(lines) ELSE NthSurf(j + 1, 1) - 1
\* last line with keyword kw inside block j (0 if none)
LastIn(j, kw) == LET S == {i \in BlockLo(j)..BlockHi(j) : lines[i].kw = kw} IN
                 IF S = {} THEN 0 ELSE CHOOSE i \in S : \A q \in S : q <= i
Written(j, kw, dflt) == IF LastIn(j, kw) = 0 THEN dflt ELSE lines[LastIn(j, kw)].a[1]
Sequential == \E i \in Idx("MODE") : lines[i].s[1] = "SEQ"

RejectsNSC   == done => (out.reject <=> ~Sequential)
\* Finish is total on well-formed sequential files: every part of the prescription is there
FinishTotal  == done /\ Sequential =>
                  /\ ~out.reject /\ Len(out.surf) >= 1 /\ out.ap # <<>> /\ Len(out.wl) >= 1 /\ out.fields # {}
                  /\ \A j \in 1..Len(out.surf) : out.surf[j].R # 0 /\ out.surf[j].med.kind \in {"air", "cat", "model"}
\* the grids are exact: every curvature written divides U*U (so R is the exact reciprocal)
GridExact    == \A i \in Idx("CURV") : LET c == lines[i].a[1] IN c = 0 \/ (U * U) % (IF c < 0 THEN -c ELSE c) = 0
SurfaceCount == done /\ ~out.reject => Len(out.surf) = NSurfLines /\ NSurfLines = g.target
RadiusLaw    == done /\ ~out.reject =>
                  \A j \in 1..NSurfLines :
                     LET c == Written(j, "CURV", 0) IN
                     IF c = 0 THEN out.surf[j].R = INF ELSE out.surf[j].R * c = U * U
VertexLaw    == done /\ ~out.reject =>
                  /\ (NSurfLines >= 2 => out.surf[2].z = 0
                        /\ out.surf[1].z = (IF Written(1, "DISZ", 0) = INF THEN -INF ELSE -Written(1, "DISZ", 0)))
                  /\ \A j \in 2..(NSurfLines - 1) : out.surf[j+1].z - out.surf[j].z = Written(j, "DISZ", 0)
ConicLaw     == done /\ ~out.reject =>
                  \A j \in 1..NSurfLines : out.surf[j].R # INF => out.surf[j].k = Written(j, "CONI", 0)
ParmLaw      == done /\ ~out.reject =>
                  \A j \in 1..NSurfLines :
                    LET ty == IF LastIn(j, "TYPE") = 0 THEN "STANDARD" ELSE lines[LastIn(j, "TYPE")].s[1] IN
                    \A n \in 1..8 :
                      LET S == {i \in BlockLo(j)..BlockHi(j) : lines[i].kw = "PARM" /\ lines[i].a[1] = n} IN
                      out.surf[j].coef[n] = (IF ty = "EVENASPH" /\ S # {} THEN lines[CHOOSE i \in S : TRUE].a[2] ELSE 0)
StopLaw      == done /\ ~out.reject =>
                  /\ Cardinality(Idx("STOP")) <= 1
                  /\ Cardinality({j \in 1..NSurfLines : out.surf[j].stop}) = Cardinality(Idx("STOP"))
                  /\ (Idx("STOP") = {} => out.stop = 0)
                  /\ \A i \in Idx("STOP") : out.stop = Cardinality({q \in SurfIdx : q < i}) /\ out.surf[out.stop].stop
MediumLaw    == done /\ ~out.reject =>
                  \A j \in 1..NSurfLines :
                    LET i == LastIn(j, "GLAS")
                        m == out.surf[j].med IN
                    IF i = 0 THEN m.kind = "air"
                    ELSE IF Vendors(lines[i].s[1]) = {} THEN m.kind = "model" /\ m.nd = lines[i].a[1] /\ m.vd = lines[i].a[2]
                    ELSE /\ m.kind = "cat" /\ m.name = lines[i].s[1] /\ m.from # {}
                         /\ \A v \in m.from : <<v, m.name>> \in Catalogue
WaveLaw      == done /\ ~out.reject =>
                  /\ Len(out.wl) = rd.nw /\ out.primary \in 1..Len(out.wl)
                  /\ \A i \in Idx("WAVM") : lines[i].a[1] <= rd.nw => out.wl[lines[i].a[1]] = lines[i].a[2]
                  /\ \A i \in Idx("PWAV") : out.primary = lines[i].a[1]
FieldLaw     == done /\ ~out.reject =>
                  /\ Cardinality(out.fields) \in 1..rd.nf
                  /\ \A ix \in Idx("XFLN"), iy \in Idx("YFLN") :
                        out.fields = {<<lines[ix].a[q], lines[iy].a[q]>> : q \in 1..rd.nf}
                  /\ out.ftype \in {"angle", "object_height"}
ApertureLaw  == done /\ ~out.reject =>
                  /\ out.ap # <<>>
                  /\ \A i \in Idx("ENPD") : out.ap = <<"EPD", lines[i].a[1]>>
                  /\ \A i \in Idx("FNUM") : out.ap = <<"imageFNO", lines[i].a[1]>>
                  /\ \A i \in Idx("OBNA") : out.ap = <<"objectNA", lines[i].a[1]>>
\* a line with an unknown keyword never changes what the reader holds
UnknownStutters == [][\A l \in Noise : lines' = Append(lines, l) => rd' = rd]_vars
\* a keyword line touches only its own register
BlockFrame == [][\A kw \in {"TYPE", "CURV", "DISZ", "CONI", "PARM", "GLAS", "STOP"} :
                   (Len(lines') = Len(lines) + 1 /\ lines'[Len(lines')].kw = kw) =>
                      /\ rd'.blocks = rd.blocks
                      /\ [rd' EXCEPT !.cur = <<>>] = [rd EXCEPT !.cur = <<>>]]_vars
SurfPushes == [][(Len(lines') = Len(lines) + 1 /\ lines'[Len(lines')].kw = "SURF") =>
                   /\ Len(rd'.blocks) + Len(rd'.cur) = Len(rd.blocks) + Len(rd.cur) + 1
                   /\ rd'.cur = <<NewBlock>>
                   /\ SubSeq(rd'.blocks, 1, Len(rd.blocks)) = rd.blocks]_vars
=============================================================================
