SPECIFICATION Spec
CONSTANTS
  Counts = {2}
  RadCodes = {0, 8, 116}
  MedCodes = {1, 3, 4}
  ThkCodes = {2}
  Cfgs = {1, 2}
INVARIANTS DistortionForms ImageSurfaceInert InvariantEverywhere SumsAreWelford ModelSatisfiesLaws StopShift StopShiftAstigDist LawsNotVacuous
CHECK_DEADLOCK FALSE
