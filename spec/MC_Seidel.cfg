SPECIFICATION Spec
CONSTANTS
  Counts = {1, 2}
  RadCodes = {0, 8, 116}
  MedCodes = {1, 2, 3, 4}
  ThkCodes = {2}
  Cfgs = {1, 3, 8}
INVARIANTS DistortionForms ImageSurfaceInert InvariantEverywhere SumsAreWelford ModelSatisfiesLaws StopShift LawsNotVacuous
CHECK_DEADLOCK FALSE
