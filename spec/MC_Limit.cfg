SPECIFICATION Spec
INVARIANTS AcceptsQuadratic EdgeFactor RejectsOthers EndClause FloorNoted Malformed QuantityJudge ScaleJudge
CHECK_DEADLOCK FALSE
