\* negative variant: no reset after the last trial (MonteCarlo.run as written).
\* TLC must report EndStateNominal violated (the driver requires it).
SPECIFICATION Spec
CONSTANTS
  Values <- MCValues
  Nom <- MCNom
  Shape = "mc"
  KindSets <- AllKinds
  RangeVals <- MCRange
  ScalarVal = 2
  NTrials = 2
  Streams <- Streams4
  WithComp = TRUE
  CompFns <- MCCompFns
  FailSets <- MCFailSets
  TrialReset = TRUE
  FinalReset = FALSE
  CompRebases = FALSE
  MaxUser = 0
  CompSkips = FALSE
INVARIANT TypeOK
INVARIANT EndStateNominal
CHECK_DEADLOCK FALSE
