------------------------------ MODULE MC_Lens ------------------------------
(* Model-checking instances of Lens: value grids (cfg files cannot hold      *)
(* negative literals) and base prescriptions for the edit models.            *)
EXTENDS Lens
MCRadii == {INF, 160, -320}
MCThick == {0, 8, 40}
MCMedia == {"air", "n15", "mirror"}
MCConics == {0, -8}
MCTilts == {0, 1}
MCDecs == {0, 4}
MCCoefs == {0, 1}
MCWaves == {4, 5}
SmallRadii == {INF, 160}
SmallThick == {8, 40}
ZeroOnly == {0}
NoExtras == {}
ScaleOnly == {"scale"}
AllExtras == {"scale", "saveload"}
InsertOnly == {"insert"}
ResetOnly == {"reset"}
OneThick == {8}
Media2 == {"air", "n15"}
StdOnly == {"std"}
BothKinds == {"std", "asph"}
Empty == [surf |-> <<>>, lastT |-> 0, wl |-> <<>>]
S(z, R, k, c1, kind, pre, post, stop, refl) ==
  [z |-> z, R |-> R, k |-> k, c1 |-> c1, kind |-> kind, pre |-> pre, post |-> post,
   stop |-> stop, refl |-> refl, dx |-> 0, rx |-> 0]
\* singlet, object at infinity: obj, S1 (stop, glass), S2 asphere back, image
Singlet == [surf |-> << S(-INF, INF, 0, 0, "std", "air", "air", FALSE, FALSE),
                        S(0, 160, 0, 0, "std", "air", "n15", TRUE, FALSE),
                        S(40, -320, 0, 1, "asph", "n15", "air", FALSE, FALSE),
                        S(200, INF, 0, 0, "std", "air", "air", FALSE, FALSE) >>,
            lastT |-> 0, wl |-> << [v |-> 4, primary |-> TRUE] >>]
\* finite-object mirror system: obj at 80, mirror (stop), image
MirrorSys == [surf |-> << S(-80, INF, 0, 0, "std", "air", "air", FALSE, FALSE),
                          S(0, -320, -8, 0, "std", "air", "air", TRUE, TRUE),
                          S(-160, INF, 0, 0, "std", "air", "air", FALSE, FALSE) >>,
              lastT |-> 0, wl |-> << [v |-> 5, primary |-> TRUE] >>]
\* finite-object doublet-like lens with 5 surfaces
Doublet == [surf |-> << S(-400, INF, 0, 0, "std", "air", "air", FALSE, FALSE),
                        S(0, 160, 0, 0, "std", "air", "n15", FALSE, FALSE),
                        S(40, -160, 0, 0, "std", "n15", "n2", TRUE, FALSE),
                        S(48, -320, -8, 0, "std", "n2", "air", FALSE, FALSE),
                        S(248, INF, 0, 0, "std", "air", "air", FALSE, FALSE) >>,
            lastT |-> 0, wl |-> << [v |-> 4, primary |-> FALSE], [v |-> 5, primary |-> TRUE] >>]
\* two air-spaced elements, object at infinity, stop on the third refracting surface, conic last
\* refracting surface (6 surfaces: edits in the second element leave the first untouched)
AirSpaced == [surf |-> << S(-INF, INF, 0, 0, "std", "air", "air", FALSE, FALSE),
                          S(0, 160, 0, 0, "std", "air", "n15", FALSE, FALSE),
                          S(8, -320, 0, 0, "std", "n15", "air", FALSE, FALSE),
                          S(48, -320, 0, 0, "std", "air", "n2", TRUE, FALSE),
                          S(56, 160, -8, 0, "std", "n2", "air", FALSE, FALSE),
                          S(96, INF, 0, 0, "std", "air", "air", FALSE, FALSE) >>,
              lastT |-> 0, wl |-> << [v |-> 5, primary |-> TRUE] >>]
MCMedia3 == {"air", "n15", "n2"}
CONSTANT Depth
LevelBound == TLCGet("level") <= Depth
=============================================================================
