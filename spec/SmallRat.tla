------------------------------ MODULE SmallRat ------------------------------
(* Exact rationals over TLC's native (32-bit) integers: <<num, den>> with     *)
(* den > 0 and gcd(num, den) = 1.  QUndef = <<0, 0>> is the result of a       *)
(* division by zero and is absorbing.  Used only by the exhaustive grid       *)
(* models (MC_Paraxial, MC_Seidel), whose grids are chosen so that nothing    *)
(* overflows: TLC raises an error on 32-bit overflow, which the harness turns *)
(* into a machinery failure, never into a verdict.                            *)
EXTENDS Integers
RECURSIVE Gcd(_, _)
Gcd(a, b) == IF b = 0 THEN a ELSE IF b = 1 THEN 1 ELSE Gcd(b, a % b)
IAbs(a) == IF a < 0 THEN -a ELSE a
QUndef == <<0, 0>>
QDef(a) == a[2] # 0
QNorm(n, d) == IF d = 0 THEN QUndef
               ELSE IF n = 0 THEN <<0, 1>>
               ELSE LET g == Gcd(IAbs(n), IAbs(d))
                        s == IF d < 0 THEN -1 ELSE 1
                    IN <<s * (n \div g), s * (d \div g)>>
QInt(n) == <<n, 1>>
QNeg(a) == <<-a[1], a[2]>>
QAbs(a) == <<IAbs(a[1]), a[2]>>
QAdd(a, b) == IF ~QDef(a) \/ ~QDef(b) THEN QUndef
              ELSE IF a[1] = 0 THEN b ELSE IF b[1] = 0 THEN a
              ELSE LET g == Gcd(a[2], b[2])
                   IN QNorm(a[1] * (b[2] \div g) + b[1] * (a[2] \div g), (a[2] \div g) * b[2])
QSub(a, b) == QAdd(a, QNeg(b))
QMul(a, b) == IF ~QDef(a) \/ ~QDef(b) THEN QUndef
              ELSE IF a[1] = 0 \/ b[1] = 0 THEN <<0, 1>>
              ELSE LET g1 == Gcd(IAbs(a[1]), b[2])
                       g2 == Gcd(IAbs(b[1]), a[2])
                   IN <<(a[1] \div g1) * (b[1] \div g2), (a[2] \div g2) * (b[2] \div g1)>>
QInv(b) == IF ~QDef(b) \/ b[1] = 0 THEN QUndef
           ELSE IF b[1] > 0 THEN <<b[2], b[1]>> ELSE <<-b[2], -b[1]>>
QDiv(a, b) == QMul(a, QInv(b))
QSign(a) == IF a[1] > 0 THEN 1 ELSE IF a[1] < 0 THEN -1 ELSE 0
QLe(a, b) == QSign(QSub(a, b)) <= 0
=============================================================================
