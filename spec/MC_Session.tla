----------------------------- MODULE MC_Session -----------------------------
EXTENDS Session
CONSTANT Depth
MCPresc == {"p1", "p2"}
MCCalls == {"trace", "generic", "paraxial", "wavefront"}
MCLib == [p \in MCPresc |-> [c \in MCCalls |-> <<p, c>>]]
LevelBound == TLCGet("level") <= Depth
View == <<presc, memo, hidden, ok>>
=============================================================================
