SPECIFICATION Spec
CONSTANT Tier = "quick"
INVARIANTS SameSum SameDiff SameProd SameSmall TruncOK MagOK
CHECK_DEADLOCK FALSE
