\* negative variant: after its first run the compensator does nothing (a stale 'already within tolerance').
\* RowsTrue still holds (the row is consistent with the compensator value it records) - TLC must report
\* RowsCompensated violated: the recorded compensation is not the compensation of the claimed lens.
SPECIFICATION Spec
CONSTANTS
  Values <- MCValues
  Nom <- MCNom
  Shape = "sens"
  KindSets <- RangeOnly
  RangeVals <- MCRange
  ScalarVal = 2
  NTrials = 2
  Streams <- NoStream
  WithComp = TRUE
  CompFns <- MCCompFns
  FailSets <- MCFailSets
  TrialReset = TRUE
  FinalReset = TRUE
  CompRebases = FALSE
  MaxUser = 0
  CompSkips = TRUE
INVARIANT TypeOK
INVARIANT RowsTrue
INVARIANT RowsCompensated
CHECK_DEADLOCK FALSE
