----------------------------- MODULE Diffraction -----------------------------
(* C11: the FFT point-spread function, the Strehl ratio and the MTF curves are  *)
(* correctly normalised transforms of the sampled complex pupil.                 *)
(*                                                                               *)
(* The laws are stated from the definitions in the property (Goodman, Fourier    *)
(* Optics ch. 6; Born & Wolf 8.3 / 9.1; Smith, Modern Optical Engineering 11.9), *)
(* not from the implementation, over exact dyadic numbers (every float64 is      *)
(* s m 2^e); complex numbers are pairs <<re, im>>.  No division, no square root, *)
(* no transcendental function is evaluated: every law is cross-multiplied and    *)
(* carries an explicit tolerance relative to the magnitude of its terms.         *)
(*                                                                               *)
(*   pupil     P[j][k], j (rows, pupil y) and k (columns, pupil x) in 1..N       *)
(*   moduli    M[j][k] = |P[j][k]|        (certificate: M >= 0, M^2 = |P|^2)     *)
(*   E   = sum |P|^2        M1 = sum M        Nrm = M1^2                         *)
(*   Nrm is the peak of the transform of the UNABERRATED pupil (same moduli,     *)
(*   zero phase): by the triangle inequality |sum P w^(..)| <= sum |P| with      *)
(*   equality at the zero-frequency pixel for a phase-free pupil.  "Scaled so    *)
(*   that the unaberrated pupil peaks at 100" therefore fixes the scale:         *)
(*       psf[a][b] * Nrm = 100 * |S(a, b)|^2,                                    *)
(*       S(a, b) = sum_{j,k} P[j][k] w^((a - G/2) j + (b - G/2) k),              *)
(*   w = exp(-2 pi i / G) (the DFT kernel; the zero-frequency pixel sits at      *)
(*   index G/2 on both axes - "fftshift" - and the position of the pupil inside  *)
(*   the zero-padded G x G array only changes S by a unit phase).                *)
(*   Consequences stated as clauses of their own: psf >= 0; psf <= 100;          *)
(*   Parseval  sum_ab psf[a][b] * Nrm = 100 G^2 E  - hence with equal moduli the *)
(*   total energy does not depend on the phase;  Strehl = psf[G/2][G/2] / 100    *)
(*   = |sum P|^2 / Nrm <= 1.                                                     *)
(*                                                                               *)
(* Certificates (logged by the recorder, validated here):                        *)
(*   w = (c1, s1): c1^2 + s1^2 = 1, w^(G/2) = -1, w^(G/4) = -i and w^(G/2^t) in  *)
(*     the open fourth quadrant for t >= 3 (repeated squaring) - for G a power   *)
(*     of two this singles out exp(-2 pi i / G) among the G-th roots of unity;   *)
(*   cos / sin of an angle th: (c0, s0) for th / 2^h with |th / 2^h| <= 1/4,     *)
(*     validated against the Taylor polynomials of degree 12 / 11 (remainder     *)
(*     < 2^-55), then squared h times;                                           *)
(*   arccos: phi with (cos phi, sin phi) = (r, sqrt(1 - r^2)) validated through  *)
(*     the cos / sin certificate of phi - so nothing but the constant Pi (the    *)
(*     float nearest pi; MC_Diffraction checks exp(i Pi) = -1) is trusted.       *)
EXTENDS DyadicFast

--------------------------------------------------------------------------
(* tolerances (bits)                                                         *)
CERTBITS == 48     \* unit modulus of certificates, M^2 = |P|^2
ROOTBITS == 44     \* w^(G/2) = -1, w^(G/4) = -i
TAYLBITS == 50     \* cos / sin certificates against their Taylor polynomials
ANGBITS  == 40     \* (cos phi, sin phi) = (r, s);  theta = 2 Pi nu dx
PIXBITS  == 36     \* pixel law: amplitude error 2^-36 of sqrt(n E)
SUMBITS  == 30     \* Parseval, energy, peak, MTF value laws
ONEBITS  == 40     \* "<= 1", "= 1 at zero frequency"

Pi == [k |-> "fin", s |-> 1, e |-> -48, m |-> <<1443, 10786, 1014, 201>>]   \* float nearest pi

--------------------------------------------------------------------------
(* comparisons through DyadicFast (same values as DLe / Close / Small of Dyadic)  *)
FLe(a, b) == IF IsFin(a) /\ IsFin(b) THEN FSub(a, b).s <= 0 ELSE DLe(a, b)
FLt(a, b) == IF IsFin(a) /\ IsFin(b) THEN FSub(a, b).s < 0 ELSE DLt(a, b)
FClose(a, b, bits) == IsFin(a) /\ IsFin(b) /\ FSmall(FSub(a, b), <<a, b>>, bits)   \* |a-b| <= 2^-bits (|a|+|b|)
FSmall1(r, scale, bits) == FSmall(r, <<scale>>, bits)                              \* |r| <= 2^-bits |scale|
\* keep the top 5 limbs (>= 57 significant bits): used for the powers of w and the terms of the DFT,
\* whose law carries a tolerance of 2^-36
Tr5(a) == IF IsFin(a) /\ Len(a.m) > 5
          THEN Fin(a.s, a.e + 14 * (Len(a.m) - 5), SubSeq(a.m, Len(a.m) - 4, Len(a.m)))
          ELSE a

--------------------------------------------------------------------------
(* complex numbers                                                           *)
C0 == <<DZero, DZero>>
C1 == <<DOne, DZero>>
IsC0(z) == z[1].s = 0 /\ z[2].s = 0
CFin(z) == IsFin(z[1]) /\ IsFin(z[2])
CTr(z) == <<FTrunc(z[1]), FTrunc(z[2])>>
CAdd(a, b) == <<FAdd(a[1], b[1]), FAdd(a[2], b[2])>>
CConj(a) == <<a[1], DNeg(a[2])>>
\* product of operands of at most 7 limbs, truncated to 7 limbs (relative error < 2^-83)
CMulT(a, b) == <<FTrunc(FSub(FMul(a[1], b[1]), FMul(a[2], b[2]))),
                 FTrunc(FAdd(FMul(a[1], b[2]), FMul(a[2], b[1])))>>
CMul5(a, b) == <<Tr5(FSub(FMul(a[1], b[1]), FMul(a[2], b[2]))),
                 Tr5(FAdd(FMul(a[1], b[2]), FMul(a[2], b[1])))>>
CAbs2(a) == LET t == CTr(a) IN FAdd(FMul(t[1], t[1]), FMul(t[2], t[2]))
Near(a, b, bits) == IsFin(a) /\ IsFin(b) /\ FLe(DAbs(FSub(a, b)), DShift(DOne, -bits))   \* |a - b| <= 2^-bits
CNear(a, b, bits) == Near(a[1], b[1], bits) /\ Near(a[2], b[2], bits)
UnitOK(z) == CFin(z) /\ Near(CAbs2(z), DOne, CERTBITS)
RECURSIVE SqN(_, _)                          \* z^(2^h)
SqN(z, h) == IF h = 0 THEN z ELSE SqN(CMulT(z, z), h - 1)

--------------------------------------------------------------------------
(* root of unity certificate                                                 *)
RECURSIVE Lg(_)
Lg(n) == IF n <= 1 THEN 0 ELSE 1 + Lg(n \div 2)
IsPow2(n) == n >= 1 /\ 2 ^ Lg(n) = n
RECURSIVE SqChain(_, _)                      \* <<z, z^2, z^4, ..., z^(2^t)>>
SqChain(z, t) == IF t = 0 THEN <<z>> ELSE LET c == SqChain(z, t - 1) IN Append(c, CMulT(c[t], c[t]))
InQ4(z) == z[1].s = 1 /\ z[2].s = -1
\* w = exp(-2 pi i / G), G = 2^lg >= 4
RootOK(w, G) ==
  /\ IsPow2(G) /\ G >= 4
  /\ UnitOK(w)
  /\ LET lg == Lg(G)
         ch == SqChain(CTr(w), lg - 1)       \* ch[t + 1] = w^(2^t)
     IN  /\ \A t \in 1..(lg - 2) : InQ4(ch[t])
         /\ CNear(ch[lg - 1], <<DZero, DNeg(DOne)>>, ROOTBITS)
         /\ CNear(ch[lg], <<DNeg(DOne), DZero>>, ROOTBITS)
RECURSIVE PowTab(_, _)                       \* <<w^0, ..., w^(n-1)>>
PowTab(w, n) == IF n = 1 THEN <<C1>> ELSE LET t == PowTab(w, n - 1) IN Append(t, CMul5(t[n - 1], w))

--------------------------------------------------------------------------
(* cos / sin certificates                                                    *)
\* cert = [th |-> angle, h |-> halvings, c |-> cos(th / 2^h), s |-> sin(th / 2^h)]
F12 == DInt(479001600)
F11 == DInt(39916800)
RECURSIVE HornerFrom(_, _, _)                \* cs[i] + t2 (cs[i+1] + t2 (cs[i+2] + ...)), truncated
HornerFrom(t2, cs, i) == IF i = Len(cs) THEN DInt(cs[i]) ELSE FAdd(DInt(cs[i]), FTMul(t2, HornerFrom(t2, cs, i + 1)))
Horner(t2, cs) == HornerFrom(t2, cs, 1)
\* 12! cos x and 11! sin x / x as polynomials in x^2 (remainders x^14/14!, x^13/13!)
Cos12(x) == Horner(FTMul(x, x), <<479001600, -239500800, 19958400, -665280, 11880, -132, 1>>)
Sin11(x) == FTMul(x, Horner(FTMul(x, x), <<39916800, -6652800, 332640, -7920, 110, -1>>))
AngleOK(a) ==
  /\ IsFin(a.th) /\ a.h \in 0..24 /\ UnitOK(<<a.c, a.s>>)
  /\ LET x == FTrunc(DShift(a.th, -a.h)) IN
       /\ FLe(DAbs(x), DShift(DOne, -2))
       /\ FSmall1(FSub(FMul(F12, a.c), Cos12(x)), F12, TAYLBITS)
       /\ FSmall1(FSub(FMul(F11, a.s), Sin11(x)), F11, TAYLBITS)
Phasor(a) == SqN(<<a.c, a.s>>, a.h)          \* (cos th, sin th) once AngleOK(a)
\* any G >= 3 (odd grids): the angle th = 2 Pi / G is certified - G th = 2 Pi, (cos th, sin th) =
\* conj w through the cos/sin certificate, which singles out the root; w^G = 1 (binary powering)
\* bounds the error of every power of w
RECURSIVE CPow(_, _)
CPow(z, n) == IF n = 0 THEN C1 ELSE IF n % 2 = 0 THEN LET h == CPow(z, n \div 2) IN CMulT(h, h)
              ELSE CMulT(z, CPow(z, n - 1))
RootAngleOK(w, a, G) ==
  /\ G >= 3 /\ UnitOK(w)
  /\ IsFin(a.th) /\ a.th.s = 1 /\ Near(FMul(a.th, DInt(G)), DShift(Pi, 1), ROOTBITS)
  /\ AngleOK(a)
  /\ CNear(Phasor(a), <<w[1], DNeg(w[2])>>, ANGBITS)
  /\ CNear(CPow(CTr(w), G), C1, ROOTBITS)
RootOKG(e, G) == IF IsPow2(G) THEN RootOK(e.w, G) ELSE RootAngleOK(e.w, e.wa, G)
\* phi = arccos r with s = sin phi = sqrt(1 - r^2):  0 <= r <= 1, s >= 0, phi in [0, 2]
ArccosOK(r, s, a) ==
  /\ IsFin(r) /\ IsFin(s) /\ r.s >= 0 /\ s.s >= 0 /\ a.th.s >= 0 /\ a.h = 3
  /\ Near(FAdd(FMul(r, r), FMul(s, s)), DOne, CERTBITS)
  /\ AngleOK(a)
  /\ CNear(Phasor(a), <<r, s>>, ANGBITS)
\* Pi * DLcurve(r) = 2 (phi - r s)      (diffraction-limited MTF of a circular pupil at f / f_c = r)
PiDL(r, s, phi) == DShift(FSub(phi, FMul(r, s)), 1)

--------------------------------------------------------------------------
(* sums over the pupil                                                       *)
Abs2Exact(z) == FAdd(FMul(z[1], z[1]), FMul(z[2], z[2]))        \* float operands: exact
RECURSIVE RowAbs2(_, _)
RowAbs2(row, n) == IF n = 0 THEN DZero ELSE
                   IF IsC0(row[n]) THEN RowAbs2(row, n - 1) ELSE FAdd(RowAbs2(row, n - 1), Abs2Exact(row[n]))
RECURSIVE SumAbs2From(_, _)
SumAbs2From(P, n) == IF n = 0 THEN DZero ELSE FAdd(SumAbs2From(P, n - 1), RowAbs2(P[n], Len(P[n])))
SumAbs2(P) == SumAbs2From(P, Len(P))
RECURSIVE RowReal(_, _)
RowReal(row, n) == IF n = 0 THEN DZero ELSE FAdd(RowReal(row, n - 1), row[n])
RECURSIVE SumRealFrom(_, _)
SumRealFrom(A, n) == IF n = 0 THEN DZero ELSE FAdd(SumRealFrom(A, n - 1), RowReal(A[n], Len(A[n])))
SumReal(A) == SumRealFrom(A, Len(A))
RECURSIVE CRowSum(_, _)
CRowSum(row, n) == IF n = 0 THEN C0 ELSE
                   IF IsC0(row[n]) THEN CRowSum(row, n - 1) ELSE CAdd(CRowSum(row, n - 1), row[n])
RECURSIVE CSumP(_, _)
CSumP(P, n) == IF n = 0 THEN C0 ELSE CAdd(CSumP(P, n - 1), CRowSum(P[n], Len(P[n])))
RECURSIVE CountRow(_, _)
CountRow(row, n) == IF n = 0 THEN 0 ELSE CountRow(row, n - 1) + (IF row[n].s = 0 THEN 0 ELSE 1)
RECURSIVE CountNZ(_, _)
CountNZ(A, n) == IF n = 0 THEN 0 ELSE CountNZ(A, n - 1) + CountRow(A[n], Len(A[n]))
Square(A, n) == Len(A) = n /\ \A j \in 1..n : Len(A[j]) = n
\* moduli certificate: M >= 0, finite, M^2 = |P|^2 within 2^-CERTBITS
ModOK(P, M, N) ==
  /\ Square(P, N) /\ Square(M, N)
  /\ \A j \in 1..N : \A k \in 1..N :
       LET z == P[j][k]
           m == M[j][k]
           a2 == Abs2Exact(z)
       IN  \/ IsC0(z) /\ IsFin(m) /\ m.s = 0
           \/ CFin(z) /\ IsFin(m) /\ m.s >= 0 /\ FSmall1(FSub(FMul(m, m), a2), a2, CERTBITS)
\* uniform amplitude: every modulus is 0 or 1 (within 2^-ONEBITS)
Uniform(M, N) == \A j \in 1..N : \A k \in 1..N : M[j][k].s = 0 \/ Near(M[j][k], DOne, ONEBITS)

--------------------------------------------------------------------------
(* the discrete Fourier transform of the pupil at one pixel                  *)
\* fa = (a - G/2) mod G, fb = (b - G/2) mod G for the pixel (a, b), 0-based, of the shifted image
Freq(a, G) == (a + G - G \div 2) % G
RECURSIVE RowDFT(_, _, _, _, _)
RowDFT(row, tab, G, fb, k) ==
  IF k = 0 THEN C0 ELSE
  LET r == RowDFT(row, tab, G, fb, k - 1) IN
  IF IsC0(row[k]) THEN r ELSE CAdd(r, CMul5(row[k], tab[((fb * (k - 1)) % G) + 1]))
RECURSIVE DFT2(_, _, _, _, _, _)
DFT2(P, tab, G, fa, fb, j) ==
  IF j = 0 THEN C0 ELSE
  LET r  == DFT2(P, tab, G, fa, fb, j - 1)
      rs == RowDFT(P[j], tab, G, fb, Len(P[j]))
  IN  IF IsC0(rs) THEN r ELSE CAdd(r, CMul5(<<Tr5(rs[1]), Tr5(rs[2])>>, tab[((fa * (j - 1)) % G) + 1]))
\* |S(a, b)|^2
Spec2(P, tab, G, a, b) == CAbs2(DFT2(P, tab, G, Freq(a, G), Freq(b, G), Len(P)))

\* the whole image at once, separably: row transforms RT[j][b + 1] = sum_k P[j][k] w^(fb k) first
RECURSIVE RowAll(_, _, _, _)
RowAll(row, tab, G, b) == IF b = 0 THEN <<>> ELSE Append(RowAll(row, tab, G, b - 1), RowDFT(row, tab, G, Freq(b - 1, G), Len(row)))
RECURSIVE RowsAll(_, _, _, _)
RowsAll(P, tab, G, j) == IF j = 0 THEN <<>> ELSE Append(RowsAll(P, tab, G, j - 1), RowAll(P[j], tab, G, G))
RECURSIVE ColDFT(_, _, _, _, _, _)
ColDFT(RT, tab, G, fa, b, j) ==
  IF j = 0 THEN C0 ELSE
  LET r == ColDFT(RT, tab, G, fa, b, j - 1)
      t == RT[j][b]
  IN  IF IsC0(t) THEN r ELSE CAdd(r, CMul5(<<Tr5(t[1]), Tr5(t[2])>>, tab[((fa * (j - 1)) % G) + 1]))

\* v * Nrm = 100 * s2 up to an amplitude error of 2^-bits sqrt(n E) on S:
\*   |v Nrm - 100 s2| <= 2 eps sqrt(100 s2) sqrt(T) + eps^2 T,  T = 100 n E >= 100 s2, eps = 2^-bits,
\* stated without roots as D^2 <= eps^2 T (4 * 100 s2 + eps^2 T)
IntensityOK(v, Nrm, s2, T, bits) ==
  LET rhs == FTrunc(FMul(DInt(100), FTrunc(s2)))
      D   == FTrunc(FSub(FMul(v, Nrm), rhs))
      Tt  == FTrunc(T)
  IN  /\ IsFin(v)
      /\ FLe(FMul(D, D), DShift(FMul(Tt, FTrunc(FAdd(DShift(rhs, 2), DShift(Tt, -2 * bits)))), -2 * bits))

--------------------------------------------------------------------------
(* PSF event                                                                 *)
(*  e.N, e.G      pupil sampling and grid size asked for                     *)
(*  e.P, e.M      the complex pupil the implementation built, and its moduli  *)
(*  e.w           root-of-unity certificate <<c1, s1>>                        *)
(*  e.wa          cos/sin certificate of the angle 2 Pi / G (used when G is   *)
(*                not a power of two)                                        *)
(*  e.rows, e.cols  shape of the psf array                                    *)
(*  e.img         the whole image (rows of pixels) or <<>>                    *)
(*  e.sum, e.min, e.max  reductions of the image by the recorder (used for    *)
(*                the global clauses when the image itself is not shipped)    *)
(*  e.pix         sampled pixels <<a, b, value>> (0-based)                    *)
(*  e.all         judge every pixel of e.img by the pixel law (small grids)   *)
(*  e.centre      the recorded value psf[G/2][G/2]                            *)
(*  e.strehl      strehl_ratio()                                              *)
(*  e.norm        the implementation's normalisation factor                   *)
RECURSIVE ImgRowSum(_, _)
ImgRowSum(row, n) == IF n = 0 THEN DZero ELSE FAdd(ImgRowSum(row, n - 1), row[n])
RECURSIVE ImgSum(_, _)
ImgSum(img, n) == IF n = 0 THEN DZero ELSE FAdd(ImgSum(img, n - 1), ImgRowSum(img[n], Len(img[n])))
Hundred == DInt(100)
Le100(v) == FLe(v, FAdd(Hundred, DShift(Hundred, -SUMBITS)))

JudgePsf(e) ==
  LET N == e.N
      G == e.G
      P == e.P
      M == e.M
      hasimg == e.img # <<>>
      modok == ModOK(P, M, N)
      shapeok == e.rows = G /\ e.cols = G
      rootok == RootOKG(e, G)
      pixfin == \A i \in 1..Len(e.pix) : IsFin(e.pix[i][3])
      fin == /\ IsFin(e.centre) /\ IsFin(e.strehl) /\ IsFin(e.sum) /\ IsFin(e.min) /\ IsFin(e.max) /\ pixfin
             /\ hasimg => \A a \in 1..Len(e.img) : \A b \in 1..Len(e.img[a]) : IsFin(e.img[a][b])
  IN
  IF ~modok THEN {"cert:modulus"} ELSE
  IF ~fin THEN {"finite"} ELSE
  LET E == SumAbs2(P)
      M1 == SumReal(M)
      n == CountNZ(M, N)
      Nrm == FMul(FTrunc(M1), FTrunc(M1))
      T == FMul(DInt(100 * n), FTrunc(E))
      S0 == CSumP(P, N)
      S02 == CAbs2(S0)
      total == IF hasimg THEN ImgSum(e.img, Len(e.img)) ELSE e.sum
      G2E100 == FMul(DInt(100), FMul(DInt(G), FMul(DInt(G), FTrunc(E))))
      flat == FSmall1(FSub(S02, Nrm), Nrm, SUMBITS)        \* |sum P| = sum |P|: uniform phase
      tab == PowTab(CTr(e.w), G)
      imgshape == hasimg => (Len(e.img) = e.rows /\ \A a \in 1..Len(e.img) : Len(e.img[a]) = e.cols)
      inimg == hasimg /\ imgshape =>
                 /\ \A i \in 1..Len(e.pix) : e.pix[i][1] < e.rows /\ e.pix[i][2] < e.cols
                                              /\ e.img[e.pix[i][1] + 1][e.pix[i][2] + 1] = e.pix[i][3]
                 /\ (shapeok => e.img[G \div 2 + 1][G \div 2 + 1] = e.centre)
  IN
  (IF n > 0 THEN {} ELSE {"cert:empty_pupil"}) \cup
  (IF imgshape /\ inimg THEN {} ELSE {"cert:image"}) \cup
  (IF shapeok THEN {} ELSE {"shape"}) \cup
  (IF /\ e.min.s >= 0
      /\ \A i \in 1..Len(e.pix) : e.pix[i][3].s >= 0
      /\ hasimg => \A a \in 1..Len(e.img) : \A b \in 1..Len(e.img[a]) : e.img[a][b].s >= 0
   THEN {} ELSE {"nonneg"}) \cup
  (IF /\ Le100(e.max) /\ Le100(e.centre)
      /\ \A i \in 1..Len(e.pix) : Le100(e.pix[i][3])
   THEN {} ELSE {"max_le_100"}) \cup
  \* Parseval: sum psf * Nrm = 100 G^2 E
  (IF ~shapeok \/ FSmall1(FSub(FMul(FTrunc(total), Nrm), G2E100), G2E100, SUMBITS) THEN {} ELSE {"parseval"}) \cup
  \* equal moduli (all 1): the total energy is 100 G^2 / n whatever the phase
  (IF ~shapeok \/ ~Uniform(M, N) \/ FSmall1(FSub(FMul(FTrunc(total), DInt(n)), FMul(DInt(100 * G), DInt(G))), FMul(DInt(100 * G), DInt(G)), SUMBITS)
   THEN {} ELSE {"energy"}) \cup
  \* the implementation's normalisation factor is the peak of the unaberrated pupil's transform
  (IF FSmall1(FSub(e.norm, Nrm), Nrm, SUMBITS) THEN {} ELSE {"norm"}) \cup
  \* Strehl = central value / 100 = |sum P|^2 / (sum |P|)^2 <= 1
  (IF FClose(FMul(e.strehl, Hundred), e.centre, 50) THEN {} ELSE {"strehl_is_centre"}) \cup
  (IF IntensityOK(FMul(e.strehl, Hundred), Nrm, S02, T, PIXBITS) THEN {} ELSE {"strehl"}) \cup
  (IF FLe(e.strehl, FAdd(DOne, DShift(DOne, -ONEBITS))) THEN {} ELSE {"strehl_le_1"}) \cup
  \* an unaberrated pupil peaks at 100, at the centre
  (IF ~flat \/ (FClose(e.centre, Hundred, SUMBITS) /\ FClose(e.max, Hundred, SUMBITS)) THEN {} ELSE {"peak100"}) \cup
  \* pixel law on the sampled pixels
  (IF ~shapeok \/ Len(e.pix) = 0 THEN {}
   ELSE IF ~rootok THEN {"cert:root"}
   ELSE IF \A i \in 1..Len(e.pix) :
             IntensityOK(e.pix[i][3], Nrm,
                         IF e.pix[i][1] = G \div 2 /\ e.pix[i][2] = G \div 2 THEN S02     \* w^0 = 1
                         ELSE Spec2(P, tab, G, e.pix[i][1], e.pix[i][2]), T, PIXBITS)
        THEN {} ELSE {"pixel"}) \cup
  \* pixel law on every pixel of the image
  (IF ~e.all \/ ~shapeok \/ ~hasimg \/ ~imgshape THEN {}
   ELSE IF ~rootok THEN {"cert:root"}
   ELSE LET RT == RowsAll(P, tab, G, N) IN
        IF \A a \in 1..G : \A b \in 1..G :
             IntensityOK(e.img[a][b], Nrm, CAbs2(ColDFT(RT, tab, G, Freq(a - 1, G), b, N)), T, PIXBITS)
        THEN {} ELSE {"pixel_all"}) \cup
  (IF flat THEN {"~flat"} ELSE {}) \cup
  \* explanation offered for a failing "norm": the factor is the squared number of non-zero pupil points
  (IF FSmall1(FSub(e.norm, FMul(DInt(n), DInt(n))), FMul(DInt(n), DInt(n)), SUMBITS) /\ ~FSmall1(FSub(e.norm, Nrm), Nrm, SUMBITS)
   THEN {"~norm_counts_nonzero_points"} ELSE {})

--------------------------------------------------------------------------
(* working F-number and cut-off                                              *)
\* q = [lam (micrometres), nu = n' |u'| of the paraxial marginal ray in image space, F (paraxial
\*      image-space F-number, only used to explain a failing clause), finite]
\* working F-number  Fw = 1 / (2 n' |u'|)  (its definition; for an object at infinity in air this
\* is f / EPD);  cut-off  fc = 1 / (lam_mm Fw) = 2 n' |u'| / lam_mm,  lam_mm = lam / 1000.
\* Cross-multiplied:   f = x fc   <=>   f lam = 2000 x nu
CutL(f, q) == FTMul(f, q.lam)
CutR(x, q) == FTMul(FMul(DInt(2000), x), q.nu)
QOK(q) == /\ IsFin(q.lam) /\ q.lam.s = 1 /\ IsFin(q.nu) /\ q.nu.s = 1
\* the cut-off an infinite-conjugate F-number would give: f lam F = 1000 x  (explanations only)
IsCutInfF(f, x, q, bits) == /\ IsFin(f) /\ IsFin(q.F)
                            /\ FClose(DAbs(FTMul(f, FTrunc(FMul(q.lam, q.F)))), FMul(DInt(1000), x), bits)
\* f = x * fc within 2^-bits
IsCut(f, x, q, bits) == IsFin(f) /\ FClose(DAbs(CutL(f, q)), CutR(x, q), bits)

--------------------------------------------------------------------------
(* FFT MTF event (one field)                                                 *)
(*  e.N, e.G, e.q;  e.tan, e.sag (G/2 samples each);  e.maxf                   *)
(*  e.axis: <<k, f_k>> samples of the x-data of the curves drawn by view()   *)
(*  e.plot: <<curve, k, y>> samples of the y-data drawn (curve 1 tangential, 2 sagittal) *)
(*  e.dl:   <<k, r, s, a>> certificates of the diffraction-limited curve at   *)
(*          r = min(k, N-1) / (N-1), the physical sample spacing of the pupil *)
(*  e.P, e.M (optional: <<>>) pupil and moduli; e.ks: indices for the exact   *)
(*          autocorrelation clauses;  e.ideal: the driver designates the      *)
(*          system as free of aberration (premise of clause "ideal")          *)
(* sampling slack of the continuous curve against the sampled pupil: 1/(2N)   *)
RECURSIVE ACRow(_, _, _, _)                  \* sum_l a[l + d] conj(b[l]), l = 1..n-d
ACRow(a, b, d, l) ==
  IF l = 0 THEN C0 ELSE
  LET r == ACRow(a, b, d, l - 1) IN
  IF IsC0(a[l + d]) \/ IsC0(b[l]) THEN r ELSE CAdd(r, CMulT(a[l + d], CConj(b[l])))
RECURSIVE ACTan(_, _, _)                     \* shift along rows (pupil y): sum_{j,l} P[j+k][l] conj P[j][l]
ACTan(P, k, j) == IF j = 0 THEN C0 ELSE CAdd(ACTan(P, k, j - 1), ACRow(P[j + k], P[j], 0, Len(P[j])))
RECURSIVE ACSag(_, _, _)                     \* shift along columns (pupil x)
ACSag(P, k, j) == IF j = 0 THEN C0 ELSE CAdd(ACSag(P, k, j - 1), ACRow(P[j], P[j], k, Len(P[j]) - k))
RECURSIVE RMulRow(_, _, _, _)                \* sum_l a[l + d] b[l] over reals
RMulRow(a, b, d, l) == IF l = 0 THEN DZero ELSE
                       IF a[l + d].s = 0 \/ b[l].s = 0 THEN RMulRow(a, b, d, l - 1)
                       ELSE FAdd(RMulRow(a, b, d, l - 1), FMul(a[l + d], b[l]))
RECURSIVE AMTan(_, _, _)
AMTan(M, k, j) == IF j = 0 THEN DZero ELSE FAdd(AMTan(M, k, j - 1), RMulRow(M[j + k], M[j], 0, Len(M[j])))
RECURSIVE AMSag(_, _, _)
AMSag(M, k, j) == IF j = 0 THEN DZero ELSE FAdd(AMSag(M, k, j - 1), RMulRow(M[j], M[j], k, Len(M[j]) - k))

OnePlus == FAdd(DOne, DShift(DOne, -ONEBITS))
InUnit(v) == IsFin(v) /\ v.s >= 0 /\ FLe(v, OnePlus)
DlCertOK(d, N) ==        \* d = <<k, r, s, a>>
  /\ d[1] >= 0
  /\ FClose(FMul(d[2], DInt(N - 1)), DInt(IF d[1] < N - 1 THEN d[1] ELSE N - 1), 50)
  /\ ArccosOK(d[2], d[3], d[4])

JudgeFftMtf(e) ==
  LET N == e.N
      G == e.G
      H == G - G \div 2                    \* samples at the non-negative frequencies (G may be odd)
      q == e.q
      haspupil == e.P # <<>>
      lenok == Len(e.tan) = H /\ Len(e.sag) = H
      certok == /\ QOK(q) /\ \A i \in 1..Len(e.dl) : DlCertOK(e.dl[i], N) /\ e.dl[i][1] < H
                /\ \A i \in 1..Len(e.axis) : e.axis[i][1] \in 0..(H - 1)
                /\ \A i \in 1..Len(e.plot) : e.plot[i][1] \in {1, 2} /\ e.plot[i][2] \in 0..(H - 1)
                /\ haspupil => (ModOK(e.P, e.M, N) /\ \A i \in 1..Len(e.ks) : e.ks[i] \in 0..(H - 1) /\ e.ks[i] < N)
  IN
  IF ~lenok THEN {"len"} ELSE
  IF ~certok THEN {"cert:mtf"} ELSE
  LET curve(c) == IF c = 1 THEN e.tan ELSE e.sag
      sampled == G >= 2 * N                  \* no wrap-around of the autocorrelation inside the reported range
      \* 2N Pi mtf  against  2N * 2 (phi - r s)  with slack Pi  (i.e. 1/(2N) on the curve)
      lhs(v) == FMul(DInt(2 * N), FMul(Pi, v))
      rhs(d) == FMul(DInt(2 * N), PiDL(d[2], d[3], d[4].th))
      slack == FAdd(Pi, DShift(DOne, -ONEBITS))
      Ep == IF haspupil THEN FTrunc(SumAbs2(e.P)) ELSE DZero
      M1 == IF haspupil THEN SumReal(e.M) ELSE DZero
      S02 == IF haspupil THEN CAbs2(CSumP(e.P, N)) ELSE DZero
      flat == haspupil /\ FSmall1(FSub(S02, FMul(M1, M1)), FMul(M1, M1), SUMBITS)
      df == IF \E i \in 1..Len(e.axis) : e.axis[i][1] = 1
            THEN (CHOOSE i \in 1..Len(e.axis) : e.axis[i][1] = 1)
            ELSE 0
      \* (mtf E)^2 = |AC|^2 and mtf E <= AM within 2^-SUMBITS E
      valueok(v, ac) == LET a == FTMul(v, Ep) IN FSmall1(FSub(FMul(a, a), CAbs2(ac)), FMul(Ep, Ep), SUMBITS)
      boundok(v, am) == FLe(FMul(v, Ep), FAdd(am, DShift(Ep, -SUMBITS)))
  IN
  (IF FClose(e.tan[1], DOne, 50) /\ FClose(e.sag[1], DOne, 50) THEN {} ELSE {"mtf0"}) \cup
  (IF \A i \in 1..H : InUnit(e.tan[i]) /\ InUnit(e.sag[i]) THEN {} ELSE {"range"}) \cup
  \* what view() draws is the stored curve, against f_k = k df
  (IF \A i \in 1..Len(e.plot) : e.plot[i][3] = curve(e.plot[i][1])[e.plot[i][2] + 1] THEN {} ELSE {"plot_is_mtf"}) \cup
  (IF df = 0 THEN {"cert:axis"}
   ELSE IF \A i \in 1..Len(e.axis) : IsFin(e.axis[i][2]) /\ FClose(e.axis[i][2], FMul(DInt(e.axis[i][1]), e.axis[df][2]), 46)
        THEN {} ELSE {"axis_linear"}) \cup
  \* the cut-off 1 / (lam_mm Fw) falls where the support of the sampled pupil's autocorrelation ends:
  \* between index N - 1 (physical sample spacing D / (N - 1)) and N (the documented Q = G / N)
  (IF df = 0 THEN {}
   ELSE LET f1 == e.axis[df][2]
            lo == CutL(FMul(DInt(N - 1), f1), q)          \* (N-1) df lam Fw ...
            hi == CutL(FMul(DInt(N), f1), q)
            one == CutR(DOne, q)
        IN IF /\ IsFin(f1) /\ f1.s = 1
              /\ FLe(DAbs(lo), FAdd(one, DShift(one, -SUMBITS)))
              /\ FLe(FSub(one, DShift(one, -SUMBITS)), DAbs(hi))
           THEN {} ELSE {"freq_axis"}) \cup
  (IF IsCut(e.maxf, DOne, q, ONEBITS) THEN {} ELSE {"max_freq"}) \cup
  \* never above the diffraction-limited curve (+ sampling slack)
  (IF ~sampled \/ \A i \in 1..Len(e.dl) : \A c \in {1, 2} :
        FLe(lhs(curve(c)[e.dl[i][1] + 1]), FAdd(rhs(e.dl[i]), slack))
   THEN {} ELSE {"dl_bound"}) \cup
  \* an unaberrated circular pupil reproduces the closed form within the sampling slack
  (IF ~sampled \/ ~(e.ideal \/ flat) \/ \A i \in 1..Len(e.dl) : \A c \in {1, 2} :
        FLe(DAbs(FSub(lhs(curve(c)[e.dl[i][1] + 1]), rhs(e.dl[i]))), slack)
   THEN {} ELSE {"ideal"}) \cup
  (IF e.ideal /\ haspupil /\ ~flat THEN {"cert:premise_flat"} ELSE {}) \cup
  \* the curve is the normalised autocorrelation of the pupil (Wiener-Khinchin), hence bounded by that of |P|
  (IF ~haspupil \/ ~sampled THEN {}
   ELSE (IF \A i \in 1..Len(e.ks) : LET k == e.ks[i] IN
              /\ valueok(e.tan[k + 1], ACTan(e.P, k, N - k))
              /\ valueok(e.sag[k + 1], ACSag(e.P, k, N))
         THEN {} ELSE {"mtf_value"}) \cup
        (IF \A i \in 1..Len(e.ks) : LET k == e.ks[i] IN
              /\ boundok(e.tan[k + 1], AMTan(e.M, k, N - k))
              /\ boundok(e.sag[k + 1], AMSag(e.M, k, N))
         THEN {} ELSE {"dl_discrete"})) \cup
  (IF flat THEN {"~flat"} ELSE {}) \cup (IF sampled THEN {} ELSE {"~aliased"}) \cup
  \* explanation offered for a failing "freq_axis": the step is Q / (lam Fw) with lam in micrometres,
  \* Q = G / N, i.e.  1000 N df = G fc  (neither the grid size nor the micrometre -> millimetre factor)
  (IF df # 0 /\ IsFin(e.axis[df][2])
      /\ FClose(DAbs(CutL(FMul(DInt(1000 * N), e.axis[df][2]), q)), CutR(DInt(G), q), 36)
   THEN {"~axis_is_Q_over_lam_F"} ELSE {})

--------------------------------------------------------------------------
(* geometric MTF event (one field, one direction)                            *)
(*  e.x      the spot coordinates (x for the sagittal, y for the tangential curve)  *)
(*  e.np     number of frequency samples; the line spread is the histogram of e.x  *)
(*           in e.np + 1 equal bins spanning [min x, max x]:  e.A (counts),        *)
(*           e.edges (np + 2 edges), e.dx (distance of the bin centres)            *)
(*  e.freq, e.mtf, e.dlc  the reported frequencies, curve and diffraction-limited curve *)
(*  e.scale  whether the curve is multiplied by the diffraction-limited curve     *)
(*  e.q, e.maxf                                                                    *)
(*  e.smp    <<k, r, s, a, st>>: arccos certificate of freq[k] / maxf and the      *)
(*           cos / sin certificate st of the step angle 2 Pi freq[k] dx            *)
(* law: mtf[k] = dlc[k] | sum_h A[h] exp(2 pi i freq[k] x_h) | / sum_h A[h] with   *)
(* x_h = x_1 + (h - 1) dx the bin centres; the modulus does not depend on x_1.     *)
RECURSIVE CountIn(_, _, _, _, _)
CountIn(x, lo, hi, closed, n) ==
  IF n = 0 THEN 0 ELSE
  CountIn(x, lo, hi, closed, n - 1) +
    (IF FLe(lo, x[n]) /\ (FLt(x[n], hi) \/ (closed /\ x[n] = hi)) THEN 1 ELSE 0)
HistOK(e) ==
  LET nb == e.np + 1
      x == e.x
      lo == e.edges[1]
      hi == e.edges[nb + 1]
      span == FSub(hi, lo)
      fuzz == DShift(FAdd(DAbs(lo), DAbs(hi)), -44)
  IN  /\ Len(e.A) = nb /\ Len(e.edges) = nb + 1 /\ Len(x) > 0
      /\ \A i \in 1..Len(x) : IsFin(x[i]) /\ FLe(lo, x[i]) /\ FLe(x[i], hi)
      /\ \E i \in 1..Len(x) : x[i] = lo
      /\ \E i \in 1..Len(x) : x[i] = hi
      /\ span.s = 1
      \* equal bins:  nb (e[h+1] - e[h]) = span,  and  nb dx = span
      /\ \A h \in 1..nb : FLe(DAbs(FSub(FMul(DInt(nb), FSub(e.edges[h + 1], e.edges[h])), span)),
                              FAdd(DShift(span, -36), FMul(DInt(nb), fuzz)))
      /\ FLe(DAbs(FSub(FMul(DInt(nb), e.dx), span)), FAdd(DShift(span, -36), FMul(DInt(nb), fuzz)))
      /\ \A h \in 1..nb : e.A[h] = CountIn(x, e.edges[h], e.edges[h + 1], h = nb, Len(x))
RECURSIVE GeoSum(_, _, _)                    \* sum_h A[h] u^(h-1): returns <<sum, u^n>>
GeoSum(A, u, n) ==
  IF n = 0 THEN <<C0, C1>> ELSE
  LET r == GeoSum(A, u, n - 1)
      t == <<FMul(DInt(A[n]), r[2][1]), FMul(DInt(A[n]), r[2][2])>>
  IN  <<CAdd(r[1], t), CMulT(r[2], u)>>
RECURSIVE IntSum(_, _)
IntSum(A, n) == IF n = 0 THEN 0 ELSE IntSum(A, n - 1) + A[n]

JudgeGeoMtf(e) ==
  LET np == e.np
      q == e.q
      lenok == Len(e.freq) = np /\ Len(e.mtf) = np /\ Len(e.dlc) = np
      certok == /\ QOK(q) /\ IsFin(e.maxf) /\ e.maxf.s = 1 /\ IsFin(e.dx)
                /\ \A i \in 1..Len(e.smp) :
                     LET d == e.smp[i] IN
                     /\ d[1] \in 0..(np - 1)
                     /\ ArccosOK(d[2], d[3], d[4])
                     /\ AngleOK(d[5])
  IN
  IF ~lenok THEN {"geo_len"} ELSE
  IF ~certok THEN {"cert:geo"} ELSE
  LET SA == IntSum(e.A, Len(e.A))
      twopi == DShift(Pi, 1)
  IN
  (IF HistOK(e) THEN {} ELSE {"cert:histogram"}) \cup
  (IF FClose(e.mtf[1], DOne, 50) THEN {} ELSE {"geo_mtf0"}) \cup
  (IF \A i \in 1..np : InUnit(e.mtf[i]) THEN {} ELSE {"geo_range"}) \cup
  (IF \A i \in 1..np : IsFin(e.dlc[i]) /\ FLe(e.mtf[i], FAdd(e.dlc[i], DShift(DOne, -ONEBITS))) THEN {} ELSE {"geo_le_dl"}) \cup
  \* frequencies: np equal steps from 0 to the cut-off 1 / (lam_mm Fw)
  (IF \A i \in 1..np : IsFin(e.freq[i]) /\ FClose(FMul(e.freq[i], DInt(np - 1)), FMul(e.maxf, DInt(i - 1)), 46)
   THEN {} ELSE {"geo_freq"}) \cup
  (IF IsCut(e.maxf, DOne, q, ONEBITS) THEN {} ELSE {"geo_max_freq"}) \cup
  \* the diffraction-limited curve it reports is (2/pi)(phi - cos phi sin phi), phi = arccos(f / maxf)
  (IF ~e.scale \/ \A i \in 1..Len(e.smp) :
        LET d == e.smp[i] IN
        /\ FClose(FMul(d[2], e.maxf), e.freq[d[1] + 1], 46)
        /\ FLe(DAbs(FSub(FMul(Pi, e.dlc[d[1] + 1]), PiDL(d[2], d[3], d[4].th))), DShift(DOne, -36))
   THEN {} ELSE {"geo_dl"}) \cup
  \* the curve is (scale x) the modulus of the Fourier transform of the line spread
  (IF \A i \in 1..Len(e.smp) :
        LET d == e.smp[i]
            nu == e.freq[d[1] + 1]
            th == FMul(twopi, FMul(nu, e.dx))
            u == Phasor(d[5])
            S == GeoSum(e.A, u, Len(e.A))[1]
            sc == IF e.scale THEN e.dlc[d[1] + 1] ELSE DOne
            l == FTMul(e.mtf[d[1] + 1], DInt(SA))
            S2 == FTrunc(CAbs2(S))
        IN  /\ FLe(DAbs(FSub(d[5].th, th)), FAdd(DShift(DAbs(th), -ANGBITS), DShift(DOne, -ANGBITS)))
            /\ FSmall1(FSub(FMul(l, l), FMul(FTMul(sc, sc), S2)), DInt(SA * SA), 28)
   THEN {} ELSE {"geo_value"}) \cup
  \* explanation offered for a failing "geo_max_freq": the cut-off is 1 / (lam_mm F), F the
  \* infinite-conjugate F-number, for an object at finite distance
  (IF q.finite /\ IsCutInfF(e.maxf, DOne, q, ONEBITS) /\ ~IsCut(e.maxf, DOne, q, ONEBITS)
   THEN {"~cutoff_uses_infinite_conjugate_F"} ELSE {})

Judge(e) == IF e.kind = "psf" THEN JudgePsf(e)
            ELSE IF e.kind = "fftmtf" THEN JudgeFftMtf(e)
            ELSE IF e.kind = "geomtf" THEN JudgeGeoMtf(e)
            ELSE {"cert:kind"}

\* the clause names per kind of event, in a fixed order (verdicts are printed as bit masks over
\* these lists because TLC wraps long printed values; the driver reads the lists from this file)
ClausesPsf == <<"cert:modulus", "finite", "cert:empty_pupil", "cert:image", "shape", "nonneg", "max_le_100",
                "parseval", "energy", "norm", "strehl_is_centre", "strehl", "strehl_le_1", "peak100",
                "cert:root", "pixel", "~flat", "~norm_counts_nonzero_points", "pixel_all">>
ClausesFftMtf == <<"len", "cert:mtf", "mtf0", "range", "plot_is_mtf", "cert:axis", "axis_linear", "freq_axis",
                   "max_freq", "dl_bound", "ideal", "cert:premise_flat", "mtf_value", "dl_discrete",
                   "~flat", "~aliased", "~axis_is_Q_over_lam_F">>
ClausesGeoMtf == <<"geo_len", "cert:geo", "cert:histogram", "geo_mtf0", "geo_range", "geo_le_dl", "geo_freq",
                   "geo_max_freq", "geo_dl", "geo_value", "~cutoff_uses_infinite_conjugate_F">>
ClausesOf(kind) == IF kind = "psf" THEN ClausesPsf ELSE IF kind = "fftmtf" THEN ClausesFftMtf
                   ELSE IF kind = "geomtf" THEN ClausesGeoMtf ELSE <<"cert:kind">>
RECURSIVE MaskFrom(_, _, _)
MaskFrom(S, names, i) == IF i = 0 THEN 0 ELSE MaskFrom(S, names, i - 1) + (IF names[i] \in S THEN 2 ^ (i - 1) ELSE 0)
\* bit 30: a clause name that is not in the list (a defect of this module)
Mask(kind, S) == LET names == ClausesOf(kind) IN
                 MaskFrom(S, names, Len(names)) +
                 (IF \A c \in S : \E i \in 1..Len(names) : names[i] = c THEN 0 ELSE 2 ^ 30)
=============================================================================
