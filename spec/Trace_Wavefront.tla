-------------------------- MODULE Trace_Wavefront --------------------------
(* Trace validation for C09: every recorded pupil sample / statistic of the *)
(* implementation is judged by the laws of spec/Wavefront.tla.  Events are  *)
(* self-contained (each carries its chief-ray record), so any sharding is   *)
(* admissible; verdicts are total.                                          *)
EXTENDS Wavefront, Json, IOUtils, TLC
Trace == JsonDeserialize(IOEnv.TRACE_FILE)
VARIABLES tpos
vars == <<tpos>>
Init == tpos = 0
Next == /\ tpos < Len(Trace)
        /\ LET e == Trace[tpos + 1] IN PrintT(<<"V", e.id, Judge(e)>>)
        /\ tpos' = tpos + 1
Spec == Init /\ [][Next]_vars
Done == TLCGet("stats").diameter - 1 = Len(Trace) /\ PrintT(<<"DONE", Len(Trace)>>)
=============================================================================
