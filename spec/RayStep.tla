------------------------------- MODULE RayStep -------------------------------
(* Laws of one real ray at one surface (C02, C16), stated as polynomial       *)
(* (in)equalities between the recorded numbers, evaluated exactly on dyadic   *)
(* rationals.  No square root, no division: every law is cross-multiplied.    *)
(*                                                                            *)
(* An event e describes one (ray, surface) step:                              *)
(*   p0, d0, o0, i0   record at the previous surface (global frame)           *)
(*   p,  d,  o,  i    record at this surface (global frame)                   *)
(*   v                vertex of the surface's frame; rot = <<cx, sx, cy, sy>> *)
(*                    certificates for cos/sin of the tilts about x and y     *)
(*   shape            "plane" | "conic" (closed-form intersection) |          *)
(*                    "sag" (conic + additive terms, intersected iteratively) *)
(*   R, kk            radius (may be infinite) and conic constant             *)
(*   terms            additive sag terms: [t |-> "r", a, n] = a (x^2+y^2)^n,   *)
(*                    [t |-> "xy", a, i, j] = a x^i y^j,                       *)
(*                    [t |-> "ch", a, i, j, sx, sy] = a T_i(x/2^sx) T_j(y/2^sy)*)
(*   tol              intersection tolerance of the iterative solver          *)
(*   n1, n2, refl     indices in front / behind at the ray's wavelength       *)
EXTENDS Vec
TOL == 26          \* residuals <= 2^-26 of the term scale (float64 arithmetic noise
                   \* on ill-conditioned but admissible steps; measured residuals ~1e-13)
UNITBITS == 40

RECURSIVE DPow(_, _)
DPow(x, n) == IF n = 0 THEN DOne ELSE TMul(x, DPow(x, n - 1))     \* truncated to >= 113 bits
\* Chebyshev T_n and its derivative by recurrences (exact)
RECURSIVE ChT(_, _)
ChT(n, x) == IF n = 0 THEN DOne ELSE IF n = 1 THEN x
             ELSE DTrunc(DSub(TMul(DTwo(x), ChT(n - 1, x)), ChT(n - 2, x)))
RECURSIVE ChU(_, _)
ChU(n, x) == IF n = 0 THEN DOne ELSE IF n = 1 THEN DTwo(x)
             ELSE DTrunc(DSub(TMul(DTwo(x), ChU(n - 1, x)), ChU(n - 2, x)))
ChTd(n, x) == IF n = 0 THEN DZero ELSE DMul(DInt(n), ChU(n - 1, x))

--------------------------------------------------------------------------
(* frame change: translate by -v, rotate_x(-rx), rotate_y(-ry)  (the order   *)
(* CoordinateSystem.localize uses)                                            *)
CertOK(e) == /\ Small(DSub(DAdd(DSq(e.rot[1]), DSq(e.rot[2])), DOne), DOne, 50)
             /\ Small(DSub(DAdd(DSq(e.rot[3]), DSq(e.rot[4])), DOne), DOne, 50)
LocDir(e, d) == RotY(RotX(d, e.rot[1], DNeg(e.rot[2])), e.rot[3], DNeg(e.rot[4]))
LocPt(e, p) == LocDir(e, V3Sub(p, e.v))

--------------------------------------------------------------------------
(* additive sag terms P(x, y) and their partial derivatives                  *)
TermVal(t, x, y) ==
  CASE t.t = "r" -> TMul(t.a, DPow(DAdd(DSq(x), DSq(y)), t.n))
    [] t.t = "xy" -> TMul(t.a, TMul(DPow(x, t.i), DPow(y, t.j)))
    [] t.t = "ch" -> TMul(t.a, TMul(ChT(t.i, DShift(x, -t.sx)), ChT(t.j, DShift(y, -t.sy))))
TermDx(t, x, y) ==
  CASE t.t = "r" -> IF t.n = 0 THEN DZero
                    ELSE TMul(TMul(t.a, DInt(2 * t.n)), TMul(x, DPow(DAdd(DSq(x), DSq(y)), t.n - 1)))
    [] t.t = "xy" -> IF t.i = 0 THEN DZero
                     ELSE TMul(TMul(t.a, DInt(t.i)), TMul(DPow(x, t.i - 1), DPow(y, t.j)))
    [] t.t = "ch" -> DShift(TMul(t.a, TMul(ChTd(t.i, DShift(x, -t.sx)), ChT(t.j, DShift(y, -t.sy)))), -t.sx)
TermDy(t, x, y) ==
  CASE t.t = "r" -> IF t.n = 0 THEN DZero
                    ELSE TMul(TMul(t.a, DInt(2 * t.n)), TMul(y, DPow(DAdd(DSq(x), DSq(y)), t.n - 1)))
    [] t.t = "xy" -> IF t.j = 0 THEN DZero
                     ELSE TMul(TMul(t.a, DInt(t.j)), TMul(DPow(x, t.i), DPow(y, t.j - 1)))
    [] t.t = "ch" -> DShift(TMul(t.a, TMul(ChT(t.i, DShift(x, -t.sx)), ChTd(t.j, DShift(y, -t.sy)))), -t.sy)
RECURSIVE SumVal(_, _, _)
SumVal(ts, x, y) == IF ts = <<>> THEN DZero ELSE DTrunc(DAdd(TermVal(ts[1], x, y), SumVal(Tail(ts), x, y)))
RECURSIVE SumDx(_, _, _)
SumDx(ts, x, y) == IF ts = <<>> THEN DZero ELSE DTrunc(DAdd(TermDx(ts[1], x, y), SumDx(Tail(ts), x, y)))
RECURSIVE SumDy(_, _, _)
SumDy(ts, x, y) == IF ts = <<>> THEN DZero ELSE DTrunc(DAdd(TermDy(ts[1], x, y), SumDy(Tail(ts), x, y)))
PVal(e, q) == SumVal(e.terms, q[1], q[2])
PDx(e, q) == SumDx(e.terms, q[1], q[2])
PDy(e, q) == SumDy(e.terms, q[1], q[2])

--------------------------------------------------------------------------
(* the surface as an implicit function of the local point q                  *)
\*   w = z - P(x, y);  curved:  F = x^2 + y^2 + (1+k) w^2 - 2 R w = 0
\*                     flat (R infinite): F = w = 0
Flat(e) == e.shape = "plane" \/ ~IsFin(e.R)
\* Everything the clauses need, computed once per event (TLC caches LET definitions):
\*   q local point, w = z - P(x, y), h = (1+k) w - R (half of dF/dw), g = grad F (a normal
\*   direction, not normalised), d0/d local directions
Geo(e) ==
  LET q == LocPt(e, e.p)
      px == PDx(e, q)
      py == PDy(e, q)
      w == DSub(q[3], PVal(e, q))
      h == DSub(DMul(DAdd(DOne, e.kk), w), e.R)
      g == IF Flat(e) THEN <<DNeg(px), DNeg(py), DOne>>
           ELSE <<DSub(q[1], DMul(h, px)), DSub(q[2], DMul(h, py)), h>>
  IN [q |-> q, w |-> w, h |-> h, g |-> g, d0 |-> LocDir(e, e.d0), d |-> LocDir(e, e.d)]
OnSurface(e, G) ==
  LET q == G.q
      w == G.w IN
  IF Flat(e) THEN Small(w, DAdd(DAdd(DOne, Norm1(q)), DShift(e.tol, 26)), TOL)
  ELSE LET r2 == DAdd(DSq(q[1]), DSq(q[2]))
           t1 == DMul(DAdd(DOne, e.kk), DSq(w))
           t2 == DTwo(DMul(e.R, w))
           res == DSub(DAdd(r2, t1), t2)
           \* iterative solvers stop at |dz| < tol: |F| may be up to |dF/dw| * tol
           \* ... and the closed-form root (-b +- sqrt(d)) / 2a cancels near the vertex, leaving an
           \* absolute position error of a few ulp of |R|: allow 2^-44 (|R| + |q|) in z, i.e.
           \* |dF/dw| times that in F (measured: 5e-14 mm at R = 52 mm)
           slack == DAdd(DAdd(DShift(DAdd(DAdd(r2, DAbs(t1)), DAbs(t2)), -TOL),
                              DMul(DShift(DAbs(G.h), 2), e.tol)),
                         DMul(DTwo(DAbs(G.h)), DShift(DAdd(DAbs(e.R), Norm1(q)), -44)))
       IN /\ DLe(DAbs(res), slack)
          \* the sag branch (the root nearer the vertex): R (R - (1+k) w) >= 0
          /\ (e.shape = "sag" => DSign(DMul(e.R, DNeg(G.h))) >= 0)

Unit(e) == Small(DSub(Dot(e.d, e.d), DOne), DOne, UNITBITS)
Collinear(e) == LET dp == V3Sub(e.p, e.p0)
                    c == Cross(dp, e.d0)
                IN \A i \in 1..3 : Small(c[i], DAdd(Norm1(dp), DShift(Norm1(e.p), -20)), TOL)
Opl(e) == LET dp == V3Sub(e.p, e.p0)
              dl == DSub(e.o, e.o0)
              lhs == DSq(dl)
              rhs == DMul(DSq(e.n1), Dot(dp, dp))
          IN DSign(dl) >= 0 /\ Small(DSub(lhs, rhs), DAdd(DAdd(lhs, rhs), DShift(DSq(e.o), -30)), TOL)
\* vector Snell law  n1 (d0 x g) = n2 (d x g)  /  reflection  d = d0 - 2 (d0.g) g / |g|^2
Snell(e, G) == LET lhs == VScale(e.n1, Cross(G.d0, G.g))
                   rhs == VScale(e.n2, Cross(G.d, G.g))
               IN \A i \in 1..3 : Small(DSub(lhs[i], rhs[i]), DMul(DAdd(DAbs(e.n1), DAbs(e.n2)), Norm1(G.g)), TOL)
Reflect(e, G) == LET g == G.g
                     g2 == Dot(g, g)
                     k2 == DTwo(Dot(G.d0, g))
                 IN \A i \in 1..3 : Small(DSub(DMul(g2, DSub(G.d[i], G.d0[i])), DNeg(DMul(k2, g[i]))),
                                          DMul(g2, DInt(3)), TOL)
HalfSpace(e, G) == LET a == DSign(Dot(G.d, G.g))
                       b == DSign(Dot(G.d0, G.g))
                   IN IF e.refl THEN a = -b ELSE a = b
\* total internal reflection: 1 - mu^2 (1 - cos^2) < 0 with cos^2 = (d0.g)^2/|g|^2
Tir(e, G) == /\ ~e.refl
             /\ LET g2 == Dot(G.g, G.g)
                    c2 == DSq(Dot(G.d0, G.g))
                    margin == DSub(DMul(DSq(e.n2), g2), DMul(DSq(e.n1), DSub(g2, c2)))   \* < 0 <=> TIR
                IN DLt(margin, DNeg(DShift(DMul(DSq(e.n2), g2), -20)))

\* root choice of the closed-form conic: the sag sheet is the root nearer the vertex,
\* R (R - (1+k) w) >= 0.  With t the distance travelled and t' the other root of the
\* ray/quadric equation a t^2 + b t + c = 0,  t t' = c / a.
FarSheet(e, G) == ~Flat(e) /\ e.shape = "conic" /\ DSign(DMul(e.R, DNeg(G.h))) < 0
NearAhead(e, G) ==
  LET q0 == LocPt(e, e.p0)
      a == DAdd(DAdd(DSq(G.d0[1]), DSq(G.d0[2])), DMul(DAdd(DOne, e.kk), DSq(G.d0[3])))
      c == DSub(DAdd(DAdd(DSq(q0[1]), DSq(q0[2])), DMul(DAdd(DOne, e.kk), DSq(q0[3]))), DTwo(DMul(e.R, q0[3])))
      t == Dot(V3Sub(e.p, e.p0), e.d0)
  IN DSign(c) * DSign(a) * DSign(t) > 0

--------------------------------------------------------------------------
(* C02 verdict for one event                                                 *)
FinRec(p, d, o) == VFin(p) /\ VFin(d) /\ IsFin(o)
JudgeRay(e) ==
  IF ~CertOK(e) THEN {"certificate"}
  ELSE IF ~FinRec(e.p0, e.d0, e.o0) THEN
       \* once non-finite, always non-finite
       (IF VFin(e.p) /\ VFin(e.d) THEN {"invalid_became_finite"} ELSE {})
  ELSE IF ~VFin(e.p) THEN {}            \* no intersection reported: nothing finite is claimed
  ELSE LET G == Geo(e)
           common == (IF OnSurface(e, G) THEN {} ELSE {"on_surface"}) \cup
                     (IF Collinear(e) THEN {} ELSE {"collinear"}) \cup
                     (IF IsFin(e.o) /\ Opl(e) THEN {} ELSE {"opl"})
       IN
       IF FarSheet(e, G)
       THEN \* the point is on the far sheet of the conicoid.  Admissible only when the near-sheet
            \* intersection lies behind the ray (the library does not propagate backwards to a
            \* closed-form conic); such steps are outside sequential validity and only noted.
            common \cup (IF NearAhead(e, G) THEN {"root_choice"} ELSE {"~virtual_surface"})
       ELSE common \cup
       (IF ~VFin(e.d) THEN {}
        ELSE (IF Unit(e) THEN {} ELSE {"unit"}) \cup
             (IF e.refl THEN (IF Reflect(e, G) THEN {} ELSE {"reflect"})
              ELSE (IF Snell(e, G) THEN {} ELSE {"snell"})) \cup
             (IF HalfSpace(e, G) THEN {} ELSE {"half_space"}) \cup
             (IF Tir(e, G) THEN {"tir_reported_finite"} ELSE {}))

--------------------------------------------------------------------------
(* C16: intensity machine of one ray at one surface                          *)
(*   i0, i   intensity before / after;  ap = <<has, rmin, rmax>> radial      *)
(*   aperture in the surface frame;  tau: coating factor (T, or R at a       *)
(*   mirror; 1 without coating);  ab: absorption certificate exp(-4 pi k d / *)
(*   lambda) for the segment, with kz = TRUE iff k = 0;  last/ri: on the    *)
(*   image surface, the intensity of the rays object the trace call returned   *)
ISLACK == 40
Inside(e) == LET q == LocPt(e, e.p)
                 r2 == DAdd(DSq(q[1]), DSq(q[2])) IN
             ~e.ap[1] \/ (DLe(DSq(e.ap[2]), r2) /\ DLe(r2, DSq(e.ap[3])))
OutsideStrict(e) == LET q == LocPt(e, e.p)
                        r2 == DAdd(DSq(q[1]), DSq(q[2])) IN
                    e.ap[1] /\ (DLt(r2, DMul(DSq(e.ap[2]), DSub(DOne, DShift(DOne, -30))))
                                \/ DLt(DMul(DSq(e.ap[3]), DAdd(DOne, DShift(DOne, -30))), r2))
InsideStrict(e) == LET q == LocPt(e, e.p)
                       r2 == DAdd(DSq(q[1]), DSq(q[2])) IN
                   ~e.ap[1] \/ (DLt(DMul(DSq(e.ap[2]), DAdd(DOne, DShift(DOne, -30))), r2)
                                /\ DLt(r2, DMul(DSq(e.ap[3]), DSub(DOne, DShift(DOne, -30)))))
AbsorbOK(e) == /\ IsFin(e.ab) /\ DLe(DZero, e.ab) /\ DLe(e.ab, DOne)
               /\ (e.kz => e.ab = DOne)
JudgeIntensity(e) ==
  IF ~IsFin(e.i0) \/ ~VFin(e.p) \/ ~VFin(e.d) THEN {}     \* invalid rays carry no intensity claim
  ELSE IF ~IsFin(e.i) THEN {"intensity_not_finite"}
  ELSE (IF DLe(DZero, e.i) /\ DLe(e.i, DAdd(DOne, DShift(DOne, -ISLACK))) THEN {} ELSE {"range"}) \cup
       (IF DLe(e.i, DMul(e.i0, DAdd(DOne, DShift(DOne, -ISLACK)))) THEN {} ELSE {"increased"}) \cup
       (IF e.i0 = DZero /\ e.i # DZero THEN {"dark_relit"} ELSE {}) \cup
       (IF OutsideStrict(e) /\ e.i # DZero THEN {"aperture_not_applied"} ELSE {}) \cup
       (IF ~AbsorbOK(e) THEN {"absorb_certificate"} ELSE {}) \cup
       \* the intensity handed back by the trace call is the last surface's
       (IF e.last /\ ~(e.ri = e.i \/ Close(e.ri, e.i, 40)) THEN {"returned_intensity"} ELSE {}) \cup
       (IF e.exact /\ InsideStrict(e) /\ ~Close(e.i, DMul(DMul(e.i0, e.ab), e.tau), 40) /\ ~(e.i = DZero /\ DMul(DMul(e.i0, e.ab), e.tau) = DZero)
        THEN {"factor"} ELSE {})
=============================================================================
