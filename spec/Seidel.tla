------------------------------- MODULE Seidel -------------------------------
(* Third-order (Seidel) and first-order chromatic surface contributions (C08), *)
(* stated from the textbook (Welford, Aberrations of Optical Systems, ch. 8)    *)
(* over the arithmetic interface of Paraxial, which this module extends.        *)
(*                                                                            *)
(* At surface k (k = 1..K-1; the image surface K contributes nothing when it     *)
(* lies inside one medium) with curvature c, indices n, n' (signed: a mirror is   *)
(* n' = -n), marginal ray (y, u -> u') and chief ray (ybar, ubar -> ubar'):       *)
(*     A = n (y c + u)      Abar = n (ybar c + ubar)      H = n (ybar u - y ubar) *)
(*     S_I   = -A^2 y D(u/n)          S_II = -A Abar y D(u/n)                      *)
(*     S_III = -Abar^2 y D(u/n)       S_IV = -H^2 c D(1/n)                         *)
(*     S_V   = (Abar / A) (S_III + S_IV)                                           *)
(*           = -Abar [ Abar^2 y D(1/n^2) + (A ybar^2 - 2 Abar y ybar) c D(1/n) ]   *)
(*     C_I   = A y D(dn/n)            C_II = Abar y D(dn/n)        dn = n_F - n_C   *)
(* (D is the change across the surface).  The second form of S_V has no division; *)
(* MC_Seidel checks that the two forms agree wherever A # 0, and that the sums     *)
(* obey the stop-shift formulas, which fix the signs of S_II .. S_V relative to     *)
(* S_I.                                                                          *)
(*                                                                            *)
(* Sign convention of the library, fixed once: its docstrings name the families   *)
(* "transverse" / "longitudinal" aberrations after Smith, Modern Optical           *)
(* Engineering ch. 6.3, where a transverse term is the height error of the ray     *)
(* through the top of the pupil at the paraxial image (undercorrected spherical    *)
(* aberration: TSC < 0) and "the Seidel sums are -2 n'_K u'_K times the sums of     *)
(* the transverse terms" (Aberrations._sum_seidels).  With W = 2 n_K u_K:           *)
(*     TSC = S_I / W   CC = S_II / W   TCC = 3 CC   TAC = S_III / W                 *)
(*     TPC = S_IV / W  DC = S_V / W    TAchC = 2 C_I / W    TchC = 2 C_II / W        *)
(*     longitudinal term = -(transverse term) / u_K                                 *)
(*     seidels()[i] = -W * sum_k (transverse term i)_k   (= minus Welford's sum)     *)
(* The sign of TSC is anchored physically by the SmallAperture clause (the real      *)
(* marginal-ray error at the paraxial focus is TSC_total eps^3 + O(eps^5)).           *)
EXTENDS Paraxial
CONSTANTS Leq(_, _),        \* a <= b (exact; used by the small-aperture inequality only)
          MagProd(_)         \* a number of the size of |f[1]| * ... * |f[n]| (within 2^n); only used as a
                             \* tolerance scale (third argument of Near), where the exact back-end ignores it

\* rational curvature representation c = cn / cd  (plane: 0 / 1, sphere: 1 / R)
Cn(L, k) == IF L.R[k].pl THEN Zero ELSE One
Cd(L, k) == IF L.R[k].pl THEN One ELSE L.R[k].v
\* signed dispersion of space k (the sign follows the index)
DN(L, dn, k) == IF Parity(L, k) = 1 THEN dn[k + 1] ELSE Neg(dn[k + 1])

---------------------------------------------------------------------------
(* Part 1 (exact back-end): the contributions as values                        *)
Contrib(L, ma, ch, dn, k) ==
  LET c == Div(Cn(L, k), Cd(L, k))
      n1 == N(L, k - 1)
      n2 == N(L, k)
      y == At(ma.y, k)
      yb == At(ch.y, k)
      u1 == At(ma.u, k - 1)
      u2 == At(ma.u, k)
      ub1 == At(ch.u, k - 1)
      A == Mul(n1, Add(Mul(y, c), u1))
      Ab == Mul(n1, Add(Mul(yb, c), ub1))
      H == Mul(n1, Sub(Mul(yb, u1), Mul(y, ub1)))
      D == Sub(Div(u2, n2), Div(u1, n1))
      D1 == Sub(Div(One, n2), Div(One, n1))
      D2 == Sub(Div(One, Sq(n2)), Div(One, Sq(n1)))
      Dd == Sub(Div(DN(L, dn, k), n2), Div(DN(L, dn, k - 1), n1))
      S3 == Neg(Mul(Sq(Ab), Mul(y, D)))
      S4 == Neg(Mul(Sq(H), Mul(c, D1)))
  IN [A |-> A, Ab |-> Ab, H |-> H,
      S1 |-> Neg(Mul(Sq(A), Mul(y, D))),
      S2 |-> Neg(Mul(Mul(A, Ab), Mul(y, D))),
      S3 |-> S3, S4 |-> S4,
      S5 |-> Neg(Mul(Ab, Add(Mul(Sq(Ab), Mul(y, D2)),
                             Mul(Sub(Mul(A, Sq(yb)), Mul(Two, Mul(Ab, Mul(y, yb)))), Mul(c, D1))))),
      S5q |-> Mul(Div(Ab, A), Add(S3, S4)),              \* textbook form, undefined when A = 0
      C1 |-> Mul(A, Mul(y, Dd)),
      C2 |-> Mul(Ab, Mul(y, Dd))]
\* what the library must return for surface k (transverse / longitudinal families)
Terms(L, ma, ch, dn, k) ==
  LET S == Contrib(L, ma, ch, dn, k)
      uK == At(ma.u, L.K)
      W == Mul(Two, Mul(N(L, L.K), uK))
      lon(t) == Neg(Div(t, uK))
      TSC == Div(S.S1, W)
      CC == Div(S.S2, W)
      TAC == Div(S.S3, W)
      TPC == Div(S.S4, W)
      TAchC == Div(Mul(Two, S.C1), W)
  IN [TSC |-> TSC, SC |-> lon(TSC), CC |-> CC, TCC |-> Mul(I(3), CC), TAC |-> TAC, AC |-> lon(TAC),
      TPC |-> TPC, PC |-> lon(TPC), DC |-> Div(S.S5, W), TAchC |-> TAchC, LchC |-> lon(TAchC),
      TchC |-> Div(Mul(Two, S.C2), W)]
Fam == <<"TSC", "SC", "CC", "TCC", "TAC", "AC", "TPC", "PC", "DC", "TAchC", "LchC", "TchC">>
RECURSIVE SumSeq(_, _)
SumSeq(s, n) == IF n = 0 THEN Zero ELSE Add(s[n], SumSeq(s, n - 1))

---------------------------------------------------------------------------
(* Part 2 (both back-ends): relations between a lens, the returned marginal and  *)
(* chief rays and the returned aberration arrays; cross-multiplied.  An event E: *)
(*   ma, ch     rays as returned by marginal_ray() / chief_ray()                 *)
(*   dn[k+1]    |n_F - n_C| of space k as the library reports it                  *)
(*   Tm          third_order(): record of the 12 families, each a sequence over    *)
(*              surfaces 1..K-1;  S: its five Seidel sums                          *)
(*   acc        the 12 single accessors, accS = seidels()                          *)
(*   op         AberrationOperand.X(optic, k) for k = 1..K-1 (NaN if it raised),   *)
(*   opsum      AberrationOperand.X_sum(optic), opS = AberrationOperand.seidels    *)
(*   sa         small-aperture data (or [has |-> FALSE])                           *)
TermClauses(L, E, k) ==
  LET ma == E.ma
      ch == E.ch
      K == L.K
      n1 == N(L, k - 1)
      n2 == N(L, k)
      cn == Cn(L, k)
      cd == Cd(L, k)
      y == At(ma.y, k)
      yb == At(ch.y, k)
      u1 == At(ma.u, k - 1)
      u2 == At(ma.u, k)
      ub1 == At(ch.u, k - 1)
      uK == At(ma.u, K)
      nu == Mul(N(L, K), uK)                  \* n_K u_K
      W == Mul(Two, nu)
      \* A cd, Abar cd and their term-wise magnitudes
      a1 == Mul(n1, Mul(y, cn))
      a2 == Mul(n1, Mul(u1, cd))
      b1 == Mul(n1, Mul(yb, cn))
      b2 == Mul(n1, Mul(ub1, cd))
      Aq == Add(a1, a2)
      Bq == Add(b1, b2)
      AqM == Add(Abs(a1), Abs(a2))
      BqM == Add(Abs(b1), Abs(b2))
      \* n n' D(u/n) = n u' - n' u
      d1 == Mul(n1, u2)
      d2 == Mul(n2, u1)
      Dn == Sub(d1, d2)
      DnM == Add(Abs(d1), Abs(d2))
      yDn == Mul(y, Dn)
      h1 == Mul(n1, Mul(yb, u1))
      h2 == Mul(n1, Mul(y, ub1))
      H == Sub(h1, h2)
      HM == Add(Abs(h1), Abs(h2))
      nn == Mul(n1, n2)
      nM == Add(Abs(n1), Abs(n2))
      cd2nn == Mul(Sq(cd), nn)
      cdnn == Mul(cd, nn)
      \* t W m = rhs, judged against |t W m| + (the magnitudes listed in mags, each a product of factors)
      Law(t, rhs, mags, Wm) == LET lhs == Mul(t, Wm) IN Near(lhs, rhs, <<lhs>> \o mags)
      W2 == Mul(W, cd2nn)                     \* W cd^2 n n'
      AyDn == Mul(Aq, yDn)
      ByDn == Mul(Bq, yDn)
      \* S5 cd^3 n^2 n'^2 = -Abar_q [ Abar_q^2 y (n^2 - n'^2) + (A_q ybar^2 - 2 Abar_q y ybar) cn (n - n') n n' ]
      e1 == Mul(Sq(Bq), Mul(y, Sub(Sq(n1), Sq(n2))))
      yyb == Mul(y, yb)
      f == Sub(Mul(Aq, Sq(yb)), Mul(Two, Mul(Bq, yyb)))
      g == Mul(cn, Mul(Sub(n1, n2), nn))
      \* chromatic: C cd n n' = A_q y (dn' n - dn n')
      c1 == Mul(DN(L, E.dn, k), n1)
      c2 == Mul(DN(L, E.dn, k - 1), n2)
      yDc == Mul(y, Sub(c1, c2))
      DcM == Add(Abs(c1), Abs(c2))
      Tm == E.T
  IN (IF E.ident THEN {} ELSE (
     (IF Law(Tm.TSC[k], Neg(Mul(Aq, AyDn)), <<MagProd(<<AqM, AqM, y, DnM>>)>>, W2)
      THEN {} ELSE {<<"TSC", k>>})
     \cup (IF Law(Tm.CC[k], Neg(Mul(Bq, AyDn)), <<MagProd(<<AqM, BqM, y, DnM>>)>>, W2)
           THEN {} ELSE {<<"CC", k>>})
     \cup (IF Law(Tm.TAC[k], Neg(Mul(Bq, ByDn)), <<MagProd(<<BqM, BqM, y, DnM>>)>>, W2)
           THEN {} ELSE {<<"TAC", k>>})
     \cup (IF Law(Tm.TPC[k], Neg(Mul(Sq(H), Mul(cn, Sub(n1, n2)))), <<MagProd(<<HM, HM, cn, nM>>)>>, Mul(W, cdnn))
           THEN {} ELSE {<<"TPC", k>>})
     \cup (IF Law(Tm.DC[k], Neg(Mul(Bq, Add(e1, Mul(f, g)))),
               <<MagProd(<<BqM, BqM, BqM, y, nM, nM>>), MagProd(<<BqM, AqM, yb, yb, cn, nM, nn>>),
                 MagProd(<<BqM, BqM, y, yb, cn, nM, nn, Two>>)>>,
               Mul(W2, cdnn))
           THEN {} ELSE {<<"DC", k>>})
     \cup (LET lhs == Mul(Mul(Tm.TAchC[k], nu), cdnn)
           IN IF Near(lhs, Mul(Aq, yDc), <<lhs, MagProd(<<AqM, y, DcM>>)>>) THEN {} ELSE {<<"TAchC", k>>})
     \cup (LET lhs == Mul(Mul(Tm.TchC[k], nu), cdnn)
           IN IF Near(lhs, Mul(Bq, yDc), <<lhs, MagProd(<<BqM, y, DcM>>)>>) THEN {} ELSE {<<"TchC", k>>})))
     \* identities of the returned families
     \cup (IF Near2(Tm.TCC[k], Mul(I(3), Tm.CC[k])) THEN {} ELSE {<<"TCC", k>>})
     \cup (IF Near2(Mul(Tm.SC[k], uK), Neg(Tm.TSC[k])) THEN {} ELSE {<<"SC", k>>})
     \cup (IF Near2(Mul(Tm.AC[k], uK), Neg(Tm.TAC[k])) THEN {} ELSE {<<"AC", k>>})
     \cup (IF Near2(Mul(Tm.PC[k], uK), Neg(Tm.TPC[k])) THEN {} ELSE {<<"PC", k>>})
     \cup (IF Near2(Mul(Tm.LchC[k], uK), Neg(Tm.TAchC[k])) THEN {} ELSE {<<"LchC", k>>})

FamSeq(Tm) == <<Tm.TSC, Tm.SC, Tm.CC, Tm.TCC, Tm.TAC, Tm.AC, Tm.TPC, Tm.PC, Tm.DC, Tm.TAchC, Tm.LchC, Tm.TchC>>
SeqFinite(s, n) == Len(s) = n /\ \A i \in 1..n : Num(s[i])
JudgeSeidel(L, E) ==
  LET K == L.K
      n == K - 1
      F == FamSeq(E.T)
      G == FamSeq(E.acc)
      O == FamSeq(E.op)
      uK == At(E.ma.u, K)
      W == Mul(Two, Mul(N(L, K), uK))
      raysOK == RayFinite(L, E.ma) /\ RayFinite(L, E.ch)
      shapeOK == (\A i \in 1..12 : SeqFinite(F[i], n)) /\ SeqFinite(E.S, 5)
      five == <<E.T.TSC, E.T.CC, E.T.TAC, E.T.TPC, E.T.DC>>
  IN IF ~raysOK THEN {<<"skip_rays_undefined", 0>>}
     ELSE IF Tiny(uK, E.ma.u) THEN {<<"skip_collimated_image_space", 0>>}
     ELSE IF ~shapeOK THEN {<<"finite", 0>>}
     ELSE UNION {TermClauses(L, E, k) : k \in 1..n}
          \* every Seidel sum is -2 n_K u_K times the sum of its transverse surface terms
          \cup (IF E.ident THEN {} ELSE {<<"seidel_sum", i>> : i \in {j \in 1..5 :
                  ~Near(E.S[j], Neg(Mul(W, SumSeq(five[j], n))), [q \in 1..n |-> Mul(W, five[j][q])])}})
          \* every accessor agrees with the all-in-one call
          \cup {<<"accessor", i>> : i \in {j \in 1..12 :
                  ~(SeqFinite(G[j], n) /\ \A q \in 1..n : Near2(G[j][q], F[j][q]))}}
          \cup (IF SeqFinite(E.accS, 5) /\ \A j \in 1..5 : Near2(E.accS[j], E.S[j]) THEN {} ELSE {<<"accessor", 13>>})
          \* operand wrappers: X(optic, k) is the term of surface k, X_sum the sum, seidels(optic, i) the i-th sum
          \cup {<<"operand_surface", k>> : k \in {q \in 1..n :
                  ~(\A j \in 1..12 : Len(O[j]) = n /\ Num(O[j][q]) /\ Near2(O[j][q], F[j][q]))}}
          \cup {<<"operand_sum", i>> : i \in {j \in 1..12 :
                  ~(Len(E.opsum) = 12 /\ Near(E.opsum[j], SumSeq(F[j], n), F[j]))}}
          \cup {<<"operand_seidel", i>> : i \in {j \in 1..5 : ~(Len(E.opS) = 5 /\ Near2(E.opS[j], E.S[j]))}}
          \* the chief ray the terms are built on carries the full field of the lens: the Lagrange
          \* invariant of the recorded rays (taken behind surface 1) is that of the field and aperture
          \* specification - n0 h u0 for an object of height h, n0 y1 tan(F) for a field angle F
          \* (E.fs.kind = "none": combinations for which no such closed form is claimed)
          \cup (IF E.fs.kind = "none" THEN {}
                ELSE LET lag == LagT(L, E.ma, E.ch, 1)
                         H == Sub(lag[1], lag[2])
                         want == IF E.fs.kind = "height" THEN Mul(N(L, 0), Mul(E.fs.v, At(E.ma.u, 0)))
                                 ELSE Mul(N(L, 0), Mul(E.fs.v, At(E.ma.y, 1)))
                     IN IF Near2(Abs(H), Abs(want)) THEN {} ELSE {<<"chief_carries_field", 0>>})
          \* small-aperture limit: with the image surface at the paraxial focus, the real on-axis ray through
          \* pupil height eps lands at  eps y_K + TSC_total eps^3 + O(eps^5)   (eps = 2^-3, 2^-4)
          \cup (IF ~E.sa.has THEN {}
                ELSE LET Tt == SumSeq(E.sa.TSC, n)
                         TA == SumSeq([q \in 1..n |-> Abs(E.sa.TSC[q])], n)
                         Err(j) == Sub(Sub(E.sa.yr[j], Mul(E.sa.eps[j], E.sa.yK)),
                                       Mul(Tt, Mul(E.sa.eps[j], Sq(E.sa.eps[j]))))
                         e3 == Mul(E.sa.eps[2], Sq(E.sa.eps[2]))
                     IN (IF \A q \in 1..n : Near2(E.sa.TSC[q], E.T.TSC[q]) THEN {} ELSE {<<"tsc_image_invariant", 0>>})
                        \cup (IF /\ Num(E.sa.yr[1]) /\ Num(E.sa.yr[2]) /\ Num(E.sa.yK)
                                 /\ Leq(Zero, E.sa.noise) /\ Leq(E.sa.noise, Sq(e3))     \* noise floor <= eps^6
                                 \* |Err| <= (1/4) eps^3 sum |TSC_k|  at the smaller aperture
                                 /\ Leq(Mul(I(4), Abs(Err(2))), Add(Mul(e3, TA), E.sa.noise))
                                 \* and it decays at least like eps^3 between the two apertures (theory: eps^5)
                                 /\ Leq(Mul(I(8), Abs(Err(2))), Add(Abs(Err(1)), E.sa.noise))
                              THEN {} ELSE {<<"small_aperture", 0>>}))
SeidelSkips == {"skip_rays_undefined", "skip_collimated_image_space"}
VerdictSeidel(L, E) == {c \in JudgeSeidel(L, E) : c[1] \notin SeidelSkips}
=============================================================================
