SPECIFICATION Spec
INVARIANT ModelOK
CHECK_DEADLOCK FALSE
