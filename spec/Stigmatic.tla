------------------------------ MODULE Stigmatic ------------------------------
(* C06: systems known in closed form to be free of aberration for an axial   *)
(* object point are imaged perfectly.                                        *)
(*                                                                           *)
(* A system is a chain of ELEMENTS on the z axis.  The beam between two      *)
(* elements is either collimated along the axis or homocentric about an      *)
(* axial point A (converging to it or diverging from it - real or virtual).  *)
(* Each element is stigmatic for one pair (beam in, beam out); the closed    *)
(* forms are textbook (Descartes' ovals and their degenerate cases; Born &   *)
(* Wolf 4.2.3, Hecht 5.1-5.2):                                               *)
(*                                                                           *)
(*  plane_mirror  any beam; the axial point is mirrored: A' = 2 zv - A       *)
(*  plane_refr    a collimated beam at normal incidence stays collimated     *)
(*  conic_mirror  conic constant k = -e^2, e = p/q.  Foci at zv + R/(1+e)    *)
(*                and zv + R/(1-e); the two foci are conjugate.  e = 1       *)
(*                (paraboloid): collimated <-> zv + R/2.  e = 0 (sphere):    *)
(*                the centre of curvature is imaged onto itself.             *)
(*  conic_refr    a collimated beam in index n1 meets a conic with           *)
(*                e = n1/n2, k = -e^2: focus in n2 at zv + R/(1-e)           *)
(*                (hyperboloid for n1 > n2: the plano-hyperbolic singlet,    *)
(*                k = -n^2; ellipsoid for n1 < n2)                           *)
(*  concentric    a spherical refracting surface whose centre of curvature   *)
(*                is the beam's point: A' = A = zv + R                       *)
(*  aplanatic     a spherical refracting surface, centre c = zv + R:         *)
(*                A = c + R n2/n1 (vertex distance R(1 + n2/n1)) is imaged   *)
(*                onto A' = c + R n1/n2 (vertex distance R(1 + n1/n2))       *)
(*                                                                           *)
(* Every relation is polynomial in the prescription (cross-multiplied, no    *)
(* division); the prescription (zv, R, kk, n1, n2) is what the projection    *)
(* reads back from the live lens, the beam points are the driver's claim.    *)
(* The spec then states what "imaged perfectly" means for the recorded rays. *)
EXTENDS Vec

RELBITS == 46     \* prescription relations: floats nearest to the rational closed forms
PTBITS  == 30     \* every ray meets the image point: |x|, |y| <= 2^-30 of the system scale
OPLBITS == 30     \* all optical paths equal to 2^-30 relative
WBITS   == 20     \* reported wavefront error |W| <= 2^-20 waves
SBITS   == 12     \* Strehl ratio within 2^-12 of one

Near(a, b, scale) == IsFin(a) /\ IsFin(b) /\ Small(DSub(a, b), scale, RELBITS)
Beam(c, a) == [c |-> c, a |-> a]            \* c: collimated;  a: axial point (ignored if c)
SameBeam(x, y) == x.c = y.c /\ (x.c \/ x.a = y.a)

\* el = [ty, zv, R, kk, n1, n2, p, q, bin, bout]   (p, q: small naturals, e = p/q)
Scale(el) == DAdd(DAdd(DAbs(el.zv), IF IsFin(el.R) THEN DAbs(el.R) ELSE DZero),
                  DAdd(IF el.bin.c THEN DZero ELSE DAbs(el.bin.a), IF el.bout.c THEN DZero ELSE DAbs(el.bout.a)))
ConicIs(el) == Near(DMul(el.kk, DInt(el.q * el.q)), DInt(-(el.p * el.p)), DInt(el.p * el.p + 1))
\* a - zv = R / (1 + s e)   <=>   (a - zv) (q + s p) = R q
FocusAt(el, a, s) == Near(DMul(DSub(a, el.zv), DInt(el.q + s * el.p)), DMul(el.R, DInt(el.q)),
                          DMul(Scale(el), DInt(el.q + el.p)))
ElementOK(el) ==
  CASE el.ty = "plane_mirror" ->
         /\ ~IsFin(el.R) /\ el.bout.c = el.bin.c
         /\ (el.bin.c \/ Near(DAdd(el.bout.a, el.bin.a), DTwo(el.zv), Scale(el)))
    [] el.ty = "plane_refr" -> ~IsFin(el.R) /\ el.bin.c /\ el.bout.c
    [] el.ty = "conic_mirror" ->
         /\ IsFin(el.R) /\ el.q > 0 /\ el.p >= 0 /\ ConicIs(el)
         /\ IF el.p = el.q
            THEN \/ el.bin.c /\ ~el.bout.c /\ FocusAt(el, el.bout.a, 1)
                 \/ ~el.bin.c /\ el.bout.c /\ FocusAt(el, el.bin.a, 1)
            ELSE /\ ~el.bin.c /\ ~el.bout.c
                 /\ \/ FocusAt(el, el.bin.a, 1) /\ FocusAt(el, el.bout.a, -1)
                    \/ FocusAt(el, el.bin.a, -1) /\ FocusAt(el, el.bout.a, 1)
    [] el.ty = "conic_refr" ->
         /\ IsFin(el.R) /\ el.q > 0 /\ el.p > 0 /\ el.p # el.q /\ ConicIs(el)
         /\ Near(DMul(el.n1, DInt(el.q)), DMul(el.n2, DInt(el.p)), DMul(el.n2, DInt(el.p)))    \* e = n1/n2
         /\ el.bin.c /\ ~el.bout.c /\ FocusAt(el, el.bout.a, -1)
    [] el.ty = "concentric" ->
         /\ IsFin(el.R) /\ el.kk = DZero /\ ~el.bin.c /\ ~el.bout.c
         /\ Near(el.bin.a, DAdd(el.zv, el.R), Scale(el)) /\ el.bout.a = el.bin.a
    [] el.ty = "aplanatic" ->
         /\ IsFin(el.R) /\ el.kk = DZero /\ ~el.bin.c /\ ~el.bout.c
         /\ LET c == DAdd(el.zv, el.R) IN
            /\ Near(DMul(DSub(el.bin.a, c), el.n1), DMul(el.R, el.n2), DMul(Scale(el), DAdd(el.n1, el.n2)))
            /\ Near(DMul(DSub(el.bout.a, c), el.n2), DMul(el.R, el.n1), DMul(Scale(el), DAdd(el.n1, el.n2)))
    [] OTHER -> FALSE

\* a system event: object (collimated or axial point zobj), elements in the order the
\* light meets them, image-surface vertex zimg
JudgeSystem(e) ==
  LET n == Len(e.els) IN
  (IF n > 0 /\ \A k \in 1..n : ElementOK(e.els[k]) THEN {} ELSE {"element_relation"}) \cup
  (IF n > 0 /\ SameBeam(e.els[1].bin, Beam(e.inf, e.zobj))
      /\ (\A k \in 1..(n - 1) : SameBeam(e.els[k].bout, e.els[k + 1].bin)
                                /\ (e.els[k].ty \in {"plane_mirror", "conic_mirror"} \/ e.els[k].n2 = e.els[k + 1].n1))
   THEN {} ELSE {"chain"}) \cup
  \* the image surface stands at the final beam point
  (IF n > 0 /\ ~e.els[n].bout.c /\ Near(e.els[n].bout.a, e.zimg, DAdd(DAbs(e.zimg), Scale(e.els[n])))
   THEN {} ELSE {"image_position"})

--------------------------------------------------------------------------
(* what "imaged perfectly" means for the recorded rays of such a system      *)
(*   xs, ys, zs, os   image-surface records of all pupil samples             *)
(*   aheads           n0 (launch - chief launch).d0 per sample: the path the *)
(*                    sample starts ahead of the common incoming wavefront   *)
(*                    (0 for a finite object; 0 on axis for a plane launch   *)
(*                    surface - it is recorded, not assumed)                 *)
(*   oc               chief-ray optical path (the system scale)              *)
(*   zimg             image point (0, 0, zimg)                               *)
AllIdx(s) == 1..Len(s)
JudgeRays(e) ==
  LET S == DAbs(e.oc) IN
  IF ~IsFin(e.oc) \/ DSign(e.oc) = 0 THEN {"chief_missing"}
  ELSE
  (IF \A i \in AllIdx(e.xs) : IsFin(e.xs[i]) /\ IsFin(e.ys[i]) /\ IsFin(e.zs[i]) /\ IsFin(e.os[i]) THEN {}
   ELSE {"ray_missing"}) \cup
  (IF \A i \in AllIdx(e.xs) : IsFin(e.xs[i]) =>
          Small(e.xs[i], S, PTBITS) /\ Small(e.ys[i], S, PTBITS) /\ Small(DSub(e.zs[i], e.zimg), S, PTBITS)
   THEN {} ELSE {"image_point"}) \cup
  (IF \A i \in AllIdx(e.os) : IsFin(e.os[i]) => Small(DSub(DAdd(e.os[i], e.aheads[i]), e.oc), S, OPLBITS)
   THEN {} ELSE {"equal_path"})
\* reported wavefront error (waves) of every pupil sample, and the Strehl ratio
JudgeWave(e) ==
  (IF \A i \in AllIdx(e.opds) : IsFin(e.opds[i]) /\ Small(e.opds[i], DOne, WBITS) THEN {} ELSE {"wavefront_zero"}) \cup
  (IF IsFin(e.strehl) /\ Small(DSub(e.strehl, DOne), DOne, SBITS) THEN {} ELSE {"strehl_one"})

Judge(e) == CASE e.kind = "system" -> JudgeSystem(e)
              [] e.kind = "rays" -> JudgeRays(e)
              [] e.kind = "wave" -> JudgeWave(e)
              [] OTHER -> {"unknown_event_kind"}
=============================================================================
