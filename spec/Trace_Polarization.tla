------------------------- MODULE Trace_Polarization -------------------------
(* Trace validation for C17: events recorded from the real implementation    *)
(* (JonesFresnel matrices, Jones element matrices, polarized lens traces)    *)
(* are judged by the laws of spec/Polarization.tla instantiated over exact   *)
(* Dyadic arithmetic (every float64 is an exact dyadic rational); tolerances *)
(* are the bit counts written in Polarization.tla.  Event kinds (field t):   *)
(*   "fresnel"  [n1, n2, ci, ct, Mt, Mr]                                     *)
(*   "element"  [kind, M, M0, cs, hd, tmax, tmin]                            *)
(*   "trace"    [d0, d, sv, pv, st, P, i, coated]                            *)
(*   "unpol"    [iu, ia, ib, sa, sb]                                         *)
(*   "surface"  [n1, n2, d0, d1, ih, iv, iu]                                 *)
(*   "inlens"   [ipass, iblock, iunpol, itwice]                              *)
(* Verdicts are total: every event gets the set of failing clause names.     *)
EXTENDS Dyadic, Json, IOUtils, TLC
DNear(a, b, scale, bits) == Small(DSub(a, b), scale, bits)
P == INSTANCE Polarization WITH Add <- DAdd, Sub <- DSub, Mul <- DMul, Zero <- DZero, One <- DOne,
                                Abs <- DAbs, Leq <- DLe, Near <- DNear
Trace == JsonDeserialize(IOEnv.TRACE_FILE)
VARIABLE l
\* a ray that reached the image (finite direction: the recorder drops the others) carries a finite
\* intensity and a finite polarization matrix
TraceFin(e) == /\ IsFin(e.i)
               /\ \A i \in 1..Len(e.P) : \A j \in 1..Len(e.P[i]) : IsFin(e.P[i][j][1]) /\ IsFin(e.P[i][j][2])
UnpolFin(e) == IsFin(e.iu) /\ IsFin(e.ia) /\ IsFin(e.ib)
Judge(e) ==
  CASE e.t = "fresnel" -> P!JudgeFresnel(e)
    [] e.t = "element" -> P!JudgeElement(e)
    [] e.t = "trace" -> IF TraceFin(e) THEN P!JudgeTrace(e) ELSE {"field_finite"}
    [] e.t = "unpol" -> IF UnpolFin(e) THEN P!JudgeUnpolarized(e) ELSE {"field_finite"}
    [] e.t = "surface" -> P!JudgeSurface(e)
    [] e.t = "inlens" -> IF IsFin(e.ipass) /\ IsFin(e.iblock) /\ IsFin(e.iunpol) /\ IsFin(e.itwice)
                         THEN P!JudgeInLens(e) ELSE {"field_finite"}
    [] OTHER -> {"unknown_event"}
Init == l = 0
Next == /\ l < Len(Trace)
        /\ l' = l + 1
        /\ PrintT(<<"V", Trace[l + 1].id, Judge(Trace[l + 1])>>)
Spec == Init /\ [][Next]_l
Done == TLCGet("stats").diameter - 1 = Len(Trace) /\ PrintT(<<"DONE", Len(Trace)>>)
=============================================================================
