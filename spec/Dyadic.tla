------------------------------ MODULE Dyadic ------------------------------
(* Exact arithmetic on dyadic rationals s * m * 2^e and IEEE specials.     *)
(* A finite number is [k |-> "fin", s |-> -1|0|1, e |-> Int, m |-> limbs]   *)
(* with m a little-endian sequence of limbs in 0..B-1, no trailing zeros;   *)
(* specials are [k |-> "nan"], [k |-> "inf", s |-> -1|1].                   *)
EXTENDS Integers, Sequences, Functions, Folds
B == 16384                                   \* 2^14: limb products < 2^28
LOCAL Max(a, b) == IF a > b THEN a ELSE b
LOCAL SumF(f, S) == FoldFunctionOnSet(LAMBDA x, acc : x + acc, 0, f, S)

RECURSIVE Carry(_, _)                        \* propagate carries, limbs may be large
Carry(s, c) == IF s = <<>> THEN (IF c = 0 THEN <<>> ELSE <<c % B>> \o Carry(<<>>, c \div B))
               ELSE LET v == s[1] + c IN <<v % B>> \o Carry(Tail(s), v \div B)
RECURSIVE Trim(_)                            \* drop high zero limbs
Trim(s) == IF s # <<>> /\ s[Len(s)] = 0 THEN Trim(SubSeq(s, 1, Len(s) - 1)) ELSE s
Limb(s, i) == IF i <= Len(s) THEN s[i] ELSE 0

AddM(a, b) == Carry([i \in 1..Max(Len(a), Len(b)) |-> Limb(a, i) + Limb(b, i)], 0)
RECURSIVE CmpFrom(_, _, _)                   \* compare magnitudes from limb i down
CmpFrom(a, b, i) == IF i = 0 THEN 0
                    ELSE IF Limb(a, i) > Limb(b, i) THEN 1
                    ELSE IF Limb(a, i) < Limb(b, i) THEN -1 ELSE CmpFrom(a, b, i - 1)
CmpM(a, b) == CmpFrom(a, b, Max(Len(a), Len(b)))
RECURSIVE Borrow(_, _)                       \* a - b for a >= b, limbs may be negative
Borrow(s, c) == IF s = <<>> THEN <<>>
                ELSE LET v == s[1] + c IN
                     IF v < 0 THEN <<v + B>> \o Borrow(Tail(s), -1) ELSE <<v>> \o Borrow(Tail(s), 0)
SubM(a, b) == Trim(Borrow([i \in 1..Len(a) |-> a[i] - Limb(b, i)], 0))
\* schoolbook product, one row of b at a time so that column sums stay < 2^31
RowM(a, d, sh) == Carry([i \in 1..(Len(a) + sh) |-> IF i <= sh THEN 0 ELSE a[i - sh] * d], 0)
RECURSIVE MulFrom(_, _, _)
MulFrom(a, b, j) == IF j > Len(b) THEN <<>> ELSE AddM(RowM(a, b[j], j - 1), MulFrom(a, b, j + 1))
MulM(a, b) == IF a = <<>> \/ b = <<>> THEN <<>> ELSE Trim(MulFrom(a, b, 1))
RECURSIVE Pow2M(_)                           \* 2^k as a magnitude
Pow2M(k) == IF k < 14 THEN <<2^k>> ELSE <<0>> \o Pow2M(k - 14)
ShlM(a, k) == IF a = <<>> \/ k = 0 THEN a ELSE MulM(a, Pow2M(k))

\* canonical form: odd mantissa (strip low zero limbs, then low zero bits)
RECURSIVE LowZeroLimbs(_)
LowZeroLimbs(m) == IF m # <<>> /\ m[1] = 0 THEN 1 + LowZeroLimbs(Tail(m)) ELSE 0
RECURSIVE Tz(_)                               \* trailing zero bits of a non-zero limb
Tz(d) == IF d % 2 = 0 THEN 1 + Tz(d \div 2) ELSE 0
ShrM(m, t) == IF t = 0 THEN m ELSE
              Trim([i \in 1..Len(m) |-> (m[i] \div 2^t) + (Limb(m, i + 1) % 2^t) * 2^(14 - t)])
Fin(s, e, m0) == IF m0 = <<>> THEN [k |-> "fin", s |-> 0, e |-> 0, m |-> <<>>] ELSE
                 LET z  == LowZeroLimbs(m0)
                     m1 == SubSeq(m0, z + 1, Len(m0))
                     t  == Tz(m1[1])
                 IN  [k |-> "fin", s |-> s, e |-> e + 14 * z + t, m |-> ShrM(m1, t)]
DZero == Fin(0, 0, <<>>)
DInt(n) == IF n = 0 THEN DZero ELSE Fin(IF n > 0 THEN 1 ELSE -1, 0, Carry(<<>>, IF n > 0 THEN n ELSE -n))
NaN == [k |-> "nan"]
Inf(s) == [k |-> "inf", s |-> s]
IsFin(a) == a.k = "fin"
DNeg(a) == IF a.k = "nan" THEN a ELSE [a EXCEPT !.s = -a.s]
DShift(a, k) == IF IsFin(a) /\ a.s # 0 THEN [a EXCEPT !.e = a.e + k] ELSE a      \* a * 2^k
DMul(a, b) == IF IsFin(a) /\ IsFin(b) THEN Fin(a.s * b.s, a.e + b.e, MulM(a.m, b.m))
              ELSE IF a.k = "nan" \/ b.k = "nan" \/ a.s = 0 \/ b.s = 0 THEN NaN ELSE Inf(a.s * b.s)
LOCAL AddFin(a, b) ==                         \* both finite
   IF a.s = 0 THEN b ELSE IF b.s = 0 THEN a ELSE
   LET e  == IF a.e < b.e THEN a.e ELSE b.e
       am == ShlM(a.m, a.e - e)
       bm == ShlM(b.m, b.e - e)
   IN  IF a.s = b.s THEN Fin(a.s, e, AddM(am, bm))
       ELSE LET c == CmpM(am, bm) IN
            IF c = 0 THEN DZero ELSE IF c > 0 THEN Fin(a.s, e, SubM(am, bm)) ELSE Fin(b.s, e, SubM(bm, am))
DAdd(a, b) == IF IsFin(a) /\ IsFin(b) THEN AddFin(a, b)
              ELSE IF a.k = "nan" \/ b.k = "nan" THEN NaN
              ELSE IF a.k = "inf" /\ b.k = "inf" THEN (IF a.s = b.s THEN a ELSE NaN)
              ELSE IF a.k = "inf" THEN a ELSE b
DSub(a, b) == DAdd(a, DNeg(b))
DSign(a) == IF a.k = "nan" THEN 2 ELSE a.s      \* -1, 0, 1; 2 for NaN
\* three-way comparison; specials ordered as IEEE does, NaN compares as 2 (unordered)
DCmp(a, b) == IF a.k = "nan" \/ b.k = "nan" THEN 2
              ELSE IF a.k = "inf" /\ b.k = "inf" THEN (IF a.s = b.s THEN 0 ELSE a.s)
              ELSE DSign(DSub(a, b))
DAbs(a) == IF IsFin(a) \/ a.k = "inf" THEN [a EXCEPT !.s = IF a.s = 0 THEN 0 ELSE 1] ELSE a
DLe(a, b) == DCmp(a, b) \in {-1, 0}
DLt(a, b) == DCmp(a, b) = -1
DEq(a, b) == DCmp(a, b) = 0                  \* numeric equality (false for NaN)
DSame(a, b) == a = b                          \* structural: canonical form, NaN = NaN
DSq(a) == DMul(a, a)
DTwo(a) == DShift(a, 1)
DHalf(a) == DShift(a, -1)
DOne == DInt(1)
\* truncate the mantissa to its top 9 limbs (>= 113 significant bits): |DTrunc(a) - a| < 2^-112 |a|.
\* Used only inside high-degree polynomial terms, where exact products would grow to
\* thousands of bits; the laws that consume them have tolerances of 2^-26 .. 2^-50.
DTrunc(a) == IF IsFin(a) /\ Len(a.m) > 9
             THEN Fin(a.s, a.e + 14 * (Len(a.m) - 9), SubSeq(a.m, Len(a.m) - 8, Len(a.m)))
             ELSE a
TMul(a, b) == DTrunc(DMul(a, b))
DMax(a, b) == IF DLe(a, b) THEN b ELSE a
RECURSIVE DSumSeq(_)
DSumSeq(s) == IF s = <<>> THEN DZero ELSE DAdd(s[1], DSumSeq(Tail(s)))
\* |a-b| <= 2^-bits (|a|+|b|)   and   |r| <= 2^-bits * scale   (finite operands only)
Close(a, b, bits) == /\ IsFin(a) /\ IsFin(b)
                     /\ DLe(DAbs(DSub(a, b)), DShift(DAdd(DAbs(a), DAbs(b)), -bits))
Small(r, scale, bits) == /\ IsFin(r) /\ IsFin(scale)
                         /\ DLe(DAbs(r), DShift(DAbs(scale), -bits))
\* equal as IEEE values would print: both NaN, same infinity, or Close
Agree(a, b, bits) == IF IsFin(a) /\ IsFin(b) THEN Close(a, b, bits) ELSE a = b
=============================================================================
