\* negative variant: a compensation records its starting point as the value reset() returns to.
\* TLC must report EndStateNominal violated (by a what-if history: two compensations without a reset).
SPECIFICATION Spec
CONSTANTS
  Values <- MCValues
  Nom <- MCNom
  Shape = "sens"
  KindSets <- RangeOnly
  RangeVals <- MCRange
  ScalarVal = 2
  NTrials = 2
  Streams <- NoStream
  WithComp = TRUE
  CompFns <- MCCompFns
  FailSets <- MCFailSets
  TrialReset = TRUE
  FinalReset = TRUE
  CompRebases = TRUE
  MaxUser = 4
  CompSkips = FALSE
INVARIANT TypeOK
INVARIANT EndStateNominal
CHECK_DEADLOCK FALSE
