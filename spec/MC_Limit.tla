------------------------------- MODULE MC_Limit -------------------------------
(* Vacuity guard of the Limit predicate (C05) on exact dyadic witnesses.        *)
(* Scale factors s_j = 2^-(2+j), j = 1..9, weights w_j = s_j, so that an error   *)
(* sequence e_j is given as r_j = e_j s_j.  TLC enumerates families              *)
(*   quad      e = a s^2                         accepted                       *)
(*   quartic   e = a s^2 + b s^4, -26 a <= b <= 16 a  accepted (either sign of b; b = -26 a *)
(*             is the nearly-cancelling lens that showed 5/16 to be too tight)     *)
(*   edge      e_{j+1} = (7/16) e_j              decay clause holds, end clause not *)
(*   slow      e_{j+1} = (1/2) e_j               rejected                       *)
(*   linear    e = a s                           rejected                       *)
(*   offset    e = a s^2 + c                     rejected (wrong limit)          *)
(*   stall     r = a s^3 + c  (absolute offset above the floor) rejected        *)
(*   noise     r = a s^3 + alternating noise below the floor    accepted        *)
(*   floor     r <= F throughout                 accepted, noted "~below_floor"  *)
(* and checks the quantity-level judge (height / tangent / focus / orientation) *)
(* and the scale-record validation on synthetic records.                        *)
EXTENDS Limit, TLC
VARIABLES kind, a, b, c
vars == <<kind, a, b, c>>
Kinds == {"quad", "quartic", "edge", "slow", "linear", "offset", "stall", "noise", "floor"}
Init == kind \in Kinds /\ a \in 1..4 /\ b \in {-26, -16, -7, -1, 0, 3, 16} /\ c \in 1..2
Spec == Init /\ [][FALSE]_vars
S(j) == DShift(DOne, -(2 + j))
Sseq == Tup9(S)
P2k(k) == DShift(DOne, -k)
F40 == P2k(40)
F20 == P2k(20)
RECURSIVE Pw(_, _)
Pw(x, n) == IF n = 0 THEN DOne ELSE DMul(x, Pw(x, n - 1))
Rseq == CASE kind = "quad" -> [j \in 1..NJ |-> DMul(DInt(a), Pw(S(j), 3))]
          [] kind = "quartic" -> [j \in 1..NJ |-> DAdd(DMul(DInt(a), Pw(S(j), 3)), DMul(DInt(b * a), Pw(S(j), 5)))]
          [] kind = "edge" -> [j \in 1..NJ |-> DMul(DMul(DInt(a), Pw(DShift(DInt(7), -4), j)), S(j))]
          [] kind = "slow" -> [j \in 1..NJ |-> DMul(DMul(DInt(a), Pw(DShift(DInt(1), -1), j)), S(j))]
          [] kind = "linear" -> [j \in 1..NJ |-> DMul(DInt(a), Pw(S(j), 2))]
          [] kind = "offset" -> [j \in 1..NJ |-> DAdd(DMul(DInt(a), Pw(S(j), 3)), DMul(DShift(DInt(c), -10), S(j)))]
          [] kind = "stall" -> [j \in 1..NJ |-> DAdd(DMul(DInt(a), Pw(S(j), 3)), DShift(DInt(c), -18))]
          [] kind = "noise" -> [j \in 1..NJ |-> DAdd(DMul(DInt(a), Pw(S(j), 3)), IF j % 2 = 0 THEN P2k(21 + c) ELSE DZero)]
          [] kind = "floor" -> [j \in 1..NJ |-> DShift(DInt(c), -(22 + j))]
Floor == IF kind \in {"stall", "noise", "floor"} THEN F20 ELSE F40
Verdict == Limit(Rseq, Sseq, Sseq, Floor)
Notes == LimNotes(Rseq, Sseq, Sseq, Floor)
Accepting == {"quad", "quartic", "noise", "floor"}
AcceptsQuadratic == kind \in Accepting => Verdict = {}
\* the stated factor itself passes the decay clause; over eight steps (7/16)^8 > 2 (1/4)^8, so the
\* end clause (which pins the overall order to two) objects
EdgeFactor == kind = "edge" => Verdict = {"end"}
RejectsOthers == kind \notin (Accepting \cup {"edge"}) => "decay" \in Verdict
EndClause == /\ kind \in {"linear", "offset", "slow"} => "end" \in Verdict
             /\ kind = "stall" => "end" \in Verdict
FloorNoted == (kind = "floor" <=> Notes = {"~below_floor"})
\* a sequence with a non-finite or negative entry is never accepted
Malformed == Limit([Rseq EXCEPT ![3] = NaN], Sseq, Sseq, Floor) = {"not_finite"}
             /\ Limit(Rseq, [Sseq EXCEPT ![2] = DZero], Sseq, Floor) = {"not_finite"}

\* quantity-level judge on synthetic records: y_p = 3, u_p = -1/4, Y_j = s_j y_p + a s_j^3
Lin == [fam |-> "chief", sn |-> Sseq, sd |-> DOne]
Yp == DInt(3)
Up == DShift(DInt(-1), -2)
Hs(sg) == [kind |-> "height", yp |-> Yp, up |-> Up, S |-> DInt(4),
           Y |-> [j \in 1..NJ |-> DMul(DInt(sg), DAdd(DMul(S(j), Yp), DMul(DInt(a), Pw(S(j), 3))))]]
\* direction (M, N) with N = 1 - s^2/2 (exact dyadic) and M = N (s u_p + a s^3)
Ts == [kind |-> "tangent", yp |-> Yp, up |-> Up, S |-> DOne,
       N |-> [j \in 1..NJ |-> DSub(DOne, DShift(DSq(S(j)), -1))],
       M |-> [j \in 1..NJ |-> DMul(DSub(DOne, DShift(DSq(S(j)), -1)), DAdd(DMul(S(j), Up), DMul(DInt(a), Pw(S(j), 3))))]]
\* focus: ray (Y, M/N) at the image surface crossing the axis at -Y N / M = -y_p/u_p + a s^2:
\*   choose N = 1, M = s u_p, Y = -(M)(-y_p/u_p + a s^2) = s y_p - a u_p s^3
Fs == [kind |-> "focus", yp |-> Yp, up |-> Up, S |-> DInt(4),
       N |-> [j \in 1..NJ |-> DOne], M |-> [j \in 1..NJ |-> DMul(S(j), Up)],
       Y |-> [j \in 1..NJ |-> DSub(DMul(S(j), Yp), DMul(DMul(DInt(a), Up), Pw(S(j), 3)))]]
\* (these two depend on `a` only: evaluated in one state per value of a)
Once == kind = "quad" /\ b = 0 /\ c = 1
QuantityJudge == Once =>
  /\ JudgeQuantity(Lin, Hs(1)) = {}
  /\ JudgeQuantity(Lin, Hs(-1)) = {"chief_orientation"}
  /\ JudgeQuantity([Lin EXCEPT !.fam = "marginal"], Hs(-1)) # {} /\ "chief_orientation" \notin JudgeQuantity([Lin EXCEPT !.fam = "marginal"], Hs(-1))
  /\ JudgeQuantity(Lin, Ts) = {}
  /\ "decay" \in JudgeQuantity(Lin, [Ts EXCEPT !.up = DShift(DInt(-17), -6)])
  /\ JudgeQuantity([Lin EXCEPT !.fam = "marginal"], Fs) = {}
  /\ "decay" \in JudgeQuantity([Lin EXCEPT !.fam = "marginal"], [Fs EXCEPT !.yp = DShift(DInt(49), -4)])
  /\ JudgeQuantity(Lin, [kind |-> "stopx", S |-> DOne, X |-> [j \in 1..NJ |-> DZero]]) = {}
  /\ JudgeQuantity(Lin, [kind |-> "stopx", S |-> DOne, X |-> [j \in 1..NJ |-> P2k(30)]]) = {"x_zero"}
ScaleJudge == Once =>
  /\ ScaleOK([fam |-> "marginal", mode |-> "linear", eps |-> Sseq, sn |-> Sseq, sd |-> DOne])
  /\ ~ScaleOK([fam |-> "marginal", mode |-> "linear", eps |-> [Sseq EXCEPT ![4] = S(5)], sn |-> [Sseq EXCEPT ![4] = S(5)], sd |-> DOne])
  /\ ~ScaleOK([fam |-> "marginal", mode |-> "linear", eps |-> Sseq, sn |-> Sseq, sd |-> DInt(2)])
  /\ ~ScaleOK([fam |-> "marginal", mode |-> "linear", eps |-> Sseq, sn |-> [Sseq EXCEPT ![9] = S(8)], sd |-> DOne])
=============================================================================
