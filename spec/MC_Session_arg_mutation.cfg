SPECIFICATION Spec
CONSTANTS
  Presc <- MCPresc
  Calls <- MCCalls
  Lib <- MCLib
  Hazard = "arg_mutation"
  Depth = 6
CONSTRAINT LevelBound
INVARIANT Clean

CHECK_DEADLOCK FALSE
