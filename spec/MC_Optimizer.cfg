SPECIFICATION Spec
CONSTANTS
  Points <- MCPoints
  FSet <- MCFSet
  InB <- AllIn
  Pick <- MCPick
  Modes <- BothModes
  Finish = TRUE
  UndoUpdates = TRUE
  MaxEvals = 3
  MaxStack = 2
  Depth = 12
CONSTRAINT LevelBound
INVARIANT TypeOK
INVARIANT LensAtReturned
INVARIANT MeritAtReturned
INVARIANT NotWorse
INVARIANT WithinBounds
INVARIANT PickupsHold
INVARIANT StackIsPre
INVARIANT DeviationShape
PROPERTY UndoRestores
CHECK_DEADLOCK FALSE
