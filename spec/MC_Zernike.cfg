SPECIFICATION Spec
INVARIANT IndexInv
INVARIANT NollAgree
INVARIANT EdgeInv
INVARIANT OrthoInv
INVARIANT OrthoWrongNorm
CHECK_DEADLOCK FALSE
