--------------------------- MODULE Trace_Zernike ---------------------------
(* Trace validation for C10.  Each event is one recorded use of the          *)
(* implementation (optiland.zernike / ZernikeOPD), all numbers exact dyadics; *)
(* the laws of spec/Zernike.tla are evaluated on them and the names of the    *)
(* failing clauses are printed.  Event kinds:                                *)
(*  "term"    family, position j, the code's indices[j-1] = (n, m), a point   *)
(*            (r, cos phi, sin phi), coefficient; the code's _radial_term,    *)
(*            _norm_constant, _azimuthal_term and get_term values            *)
(*  "lin"     two coefficient vectors ca, cb, scalars a, b, cc = a ca + b cb, *)
(*            a point, the three poly() values                               *)
(*  "fit"     points, data synthesised from ctrue, the fitted coefficients   *)
(*  "fitlin"  data z1, z2, z3 = a z1 + b z2 on one point set, the three fits  *)
(*  "opd"     pupil points, OPD samples, fitted coefficients, the values the  *)
(*            fitted polynomial takes there, the reported rms residual, and   *)
(*            the same for a fit with fewer terms                            *)
(* sqt[k] are square-root certificates (validated by sqt[k]^2 = k); cos/sin   *)
(* of the azimuth are certificates validated by c^2 + s^2 = 1.               *)
(* A value that agrees with the published polynomial after flipping the sign  *)
(* of the sine terms is reported as "sine_sign", not as a wrong value.        *)
EXTENDS Zernike, Json, IOUtils
Trace == JsonDeserialize(IOEnv.TRACE_FILE)
VARIABLE tpos
VALBITS == 44        \* evaluations: 2^-44 of the rounding scale sum |c_i| N_i sum_k |coef_k|
RECBITS == 20        \* fitted coefficients: 2^-20 of the largest coefficient / datum

UnitOK(c, s) == IsFin(c) /\ IsFin(s) /\ Small(DSub(DAdd(DSq(c), DSq(s)), DOne), DOne, 50)
\* value v against cosine part C and sine part S of the published polynomial
Verdict(v, C, S, scale, name) ==
  IF Small(DSub(v, DAdd(C, S)), scale, VALBITS) THEN {}
  ELSE IF Small(DSub(v, DSub(C, S)), scale, VALBITS) THEN {"sine_sign"} ELSE {name}
AllFin(s) == \A k \in 1..Len(s) : IsFin(s[k])

--------------------------------------------------------------------------
JudgeTerm(e) ==
  LET p == Idx(e.fam)[e.j]
      n == p[1]
      m == p[2]
      ma == ZAbs(m)
      certok == SqtOK(e.sqt) /\ UnitOK(e.c1, e.s1) /\ AllFin(<<e.r, e.coeff, e.rad, e.norm, e.az, e.val>>)
  IN (IF <<e.n, e.m>> = p THEN {} ELSE {"index"}) \cup
     IF ~certok THEN {"certificate"}
     ELSE LET x == DMul(e.r, e.c1)
              y == DMul(e.r, e.s1)
              nc == NormOf(e.fam, n, m, e.sqt)
              R == RadialAt(n, ma, e.r)
              RA == RadialAbsAt(n, ma, e.r)
              ang == AngAt(m, CPowSeq(<<e.c1, e.s1>>, ma, << <<DOne, DZero>> >>))
              T == TMul(e.coeff, TMul(nc, TermAt(n, m, Point(x, y, ma, (n - ma) \div 2))))
              scale == DMul(DAbs(e.coeff), DMul(nc, RA))
          IN (IF InDisk(x, y) THEN {} ELSE {"domain"}) \cup
             (IF Small(DSub(e.rad, R), RA, VALBITS) THEN {} ELSE {"radial"}) \cup
             (IF Close(e.norm, nc, 48) THEN {} ELSE {"norm"}) \cup
             (IF m >= 0 THEN Verdict(e.az, ang, DZero, DOne, "azimuthal")
              ELSE Verdict(e.az, DZero, ang, DOne, "azimuthal")) \cup
             (IF m >= 0 THEN Verdict(e.val, T, DZero, scale, "term_value")
              ELSE Verdict(e.val, DZero, T, scale, "term_value"))

--------------------------------------------------------------------------
Comb(a, u, b, w) == DAdd(DMul(a, u), DMul(b, w))
CombScale(a, u, b, w) == DAdd(DAbs(DMul(a, u)), DAbs(DMul(b, w)))
JudgeLin(e) ==
  LET N == Len(e.ca)
      idx == Idx(e.fam)
      certok == SqtOK(e.sqt) /\ UnitOK(e.c1, e.s1) /\ N \in 1..NTERMS /\ Len(e.cb) = N /\ Len(e.cc) = N
                /\ AllFin(e.ca) /\ AllFin(e.cb) /\ AllFin(e.cc) /\ AllFin(<<e.r, e.a, e.b, e.pa, e.pb, e.pc>>)
  IN IF ~certok THEN {"certificate"}
     ELSE LET x == DMul(e.r, e.c1)
              y == DMul(e.r, e.s1)
              bs == Basis(e.fam, N, x, y, e.sqt)
              sa == AbsScale(e.fam, e.ca, idx, N, e.sqt)
              sb == AbsScale(e.fam, e.cb, idx, N, e.sqt)
              sc == AbsScale(e.fam, e.cc, idx, N, e.sqt)
          IN (IF InDisk(x, y) THEN {} ELSE {"domain"}) \cup
             (IF \A k \in 1..N : Small(DSub(e.cc[k], Comb(e.a, e.ca[k], e.b, e.cb[k])),
                                       CombScale(e.a, e.ca[k], e.b, e.cb[k]), 50) THEN {} ELSE {"combo"}) \cup
             Verdict(e.pa, DotSel(e.ca, bs, idx, N, 1), DotSel(e.ca, bs, idx, N, -1), sa, "poly_value") \cup
             Verdict(e.pb, DotSel(e.cb, bs, idx, N, 1), DotSel(e.cb, bs, idx, N, -1), sb, "poly_value") \cup
             Verdict(e.pc, DotSel(e.cc, bs, idx, N, 1), DotSel(e.cc, bs, idx, N, -1), sc, "poly_value") \cup
             (IF Small(DSub(e.pc, Comb(e.a, e.pa, e.b, e.pb)),
                       DAdd(sc, DAdd(DMul(DAbs(e.a), sa), DMul(DAbs(e.b), sb))), VALBITS)
              THEN {} ELSE {"linear"})

--------------------------------------------------------------------------
\* z[k] against the published polynomial with coefficients c at (xs[k], ys[k])
SpotVerdict(f, c, x, y, v, sqt, name) ==
  LET N == Len(c)
      idx == Idx(f)
      bs == Basis(f, N, x, y, sqt)
  IN (IF InDisk(x, y) THEN {} ELSE {"domain"}) \cup
     Verdict(v, DotSel(c, bs, idx, N, 1), DotSel(c, bs, idx, N, -1), AbsScale(f, c, idx, N, sqt), name)
JudgeFit(e) ==
  LET N == e.N
      K == Len(e.xs)
      ok == SqtOK(e.sqt) /\ N \in 1..NTERMS /\ Len(e.ctrue) = N /\ Len(e.ys) = K /\ Len(e.z) = K /\ K >= N
            /\ AllFin(e.ctrue) /\ AllFin(e.xs) /\ AllFin(e.ys) /\ AllFin(e.z)
            /\ \A k \in 1..Len(e.spots) : e.spots[k] \in 1..K
  IN IF ~ok THEN {"certificate"}
     ELSE (IF Len(e.cfit) = N /\ AllFin(e.cfit) THEN
              (IF \A k \in 1..N : Small(DSub(e.cfit[k], e.ctrue[k]), MaxAbsSeq(e.ctrue), RECBITS)
               THEN {} ELSE {"recover"})
           ELSE {"shape"}) \cup
          UNION {SpotVerdict(e.fam, e.ctrue, e.xs[e.spots[k]], e.ys[e.spots[k]], e.z[e.spots[k]], e.sqt, "synth_value")
                 : k \in 1..Len(e.spots)}

JudgeFitLin(e) ==
  LET N == e.N
      K == Len(e.z1)
      ok == N \in 1..NTERMS /\ Len(e.z2) = K /\ Len(e.z3) = K /\ AllFin(e.z1) /\ AllFin(e.z2) /\ AllFin(e.z3)
            /\ AllFin(<<e.a, e.b>>)
  IN IF ~ok THEN {"certificate"}
     ELSE (IF \A k \in 1..K : Small(DSub(e.z3[k], Comb(e.a, e.z1[k], e.b, e.z2[k])),
                                    CombScale(e.a, e.z1[k], e.b, e.z2[k]), 48) THEN {} ELSE {"data_combo"}) \cup
          (IF Len(e.f1) = N /\ Len(e.f2) = N /\ Len(e.f3) = N /\ AllFin(e.f1) /\ AllFin(e.f2) /\ AllFin(e.f3) THEN
             LET scale == DAdd(DMul(DAbs(e.a), MaxAbsSeq(e.z1)), DMul(DAbs(e.b), MaxAbsSeq(e.z2))) IN
             (IF \A k \in 1..N : Small(DSub(e.f3[k], Comb(e.a, e.f1[k], e.b, e.f2[k])), scale, RECBITS)
              THEN {} ELSE {"fit_linear"})
           ELSE {"shape"})

--------------------------------------------------------------------------
(* wavefront decomposition: the fitted polynomial at the sample points is    *)
(* what the code says it is, the coefficients satisfy the normal equations   *)
(* of the least-squares problem (the residual is orthogonal to every basis   *)
(* column), the reported rms residual is the residual, and it does not       *)
(* exceed that of the zero polynomial or of a fit with fewer terms.          *)
BasisRows(f, N, xs, ys, sqt) == Seqify([k \in 1..Len(xs) |-> Basis(f, N, xs[k], ys[k], sqt)])
SumSq(s) == DSumT([k \in 1..Len(s) |-> DSq(s[k])])
DiffSeq(u, w) == Seqify([k \in 1..Len(u) |-> DSub(u[k], w[k])])
ColDot(r, rows, i) == DSumT([k \in 1..Len(rows) |-> DMul(r[k], rows[k][i])])     \* sum_k r[k] rows[k][i]
ColSq(rows, i) == DSumT([k \in 1..Len(rows) |-> DSq(rows[k][i])])
JudgeOpd(e) ==
  LET N == e.N
      K == Len(e.xs)
      idx == Idx(e.fam)
      ok == SqtOK(e.sqt) /\ N \in 1..NTERMS /\ Len(e.ys) = K /\ Len(e.z) = K /\ Len(e.recon) = K /\ Len(e.recon1) = K
            /\ K >= N /\ e.N1 \in 1..N /\ AllFin(e.xs) /\ AllFin(e.ys) /\ AllFin(e.z) /\ AllFin(e.recon) /\ AllFin(e.recon1)
            /\ IsFin(e.rms) /\ \A k \in 1..K : InDisk(e.xs[k], e.ys[k])
  IN IF ~ok THEN {"certificate"}
     ELSE IF ~(Len(e.coeffs) = N /\ AllFin(e.coeffs)) THEN {"shape"}
     ELSE LET rows == BasisRows(e.fam, N, e.xs, e.ys, e.sqt)
              res == DiffSeq(e.recon, e.z)
              res1 == DiffSeq(e.recon1, e.z)
              rss == SumSq(res)
              rss1 == SumSq(res1)
              zz == SumSq(e.z)
              scale == AbsScale(e.fam, e.coeffs, idx, N, e.sqt)
          IN UNION {Verdict(e.recon[k], DotSel(e.coeffs, rows[k], idx, N, 1), DotSel(e.coeffs, rows[k], idx, N, -1),
                            scale, "recon_value") : k \in 1..K} \cup
             (IF \A i \in 1..N : DLe(DSq(ColDot(res, rows, i)), DShift(DMul(zz, ColSq(rows, i)), -2 * RECBITS))
              THEN {} ELSE {"normal_equations"}) \cup
             (IF Close(DMul(DInt(K), DSq(e.rms)), rss, 40) \/ (rss = DZero /\ e.rms = DZero) THEN {} ELSE {"residual_reported"}) \cup
             (IF DLe(rss, DMul(zz, DAdd(DOne, DShift(DOne, -30)))) THEN {} ELSE {"residual_exceeds_data"}) \cup
             (IF DLe(rss, DAdd(DMul(rss1, DAdd(DOne, DShift(DOne, -RECBITS))), DShift(zz, -2 * RECBITS)))
              THEN {} ELSE {"residual_not_monotone"})

--------------------------------------------------------------------------
Judge(e) == CASE e.kind = "term" -> JudgeTerm(e)
              [] e.kind = "lin" -> JudgeLin(e)
              [] e.kind = "fit" -> JudgeFit(e)
              [] e.kind = "fitlin" -> JudgeFitLin(e)
              [] e.kind = "opd" -> JudgeOpd(e)
              [] OTHER -> {"unknown_kind"}
\* TLC wraps printed values at 80 columns and the harness reads verdicts line by line: clause
\* names are printed as two-letter codes (harness/drivers/c10.py maps them back)
Code == [index |-> "ix", certificate |-> "ce", domain |-> "do", radial |-> "ra", norm |-> "no", azimuthal |-> "az",
         term_value |-> "tv", sine_sign |-> "ss", combo |-> "co", poly_value |-> "pv", linear |-> "li", recover |-> "rc",
         shape |-> "sh", synth_value |-> "sv", data_combo |-> "dc", fit_linear |-> "fl", recon_value |-> "rv",
         normal_equations |-> "ne", residual_reported |-> "rr", residual_exceeds_data |-> "rx",
         residual_not_monotone |-> "rm", unknown_kind |-> "uk"]
Init == tpos = 0
Next == /\ tpos < Len(Trace)
        /\ PrintT(<<"V", Trace[tpos + 1].id, {Code[c] : c \in Judge(Trace[tpos + 1])}>>)
        /\ tpos' = tpos + 1
Spec == Init /\ [][Next]_tpos
Done == TLCGet("stats").diameter - 1 = Len(Trace) /\ PrintT(<<"DONE", Len(Trace)>>)
=============================================================================
