-------------------------------- MODULE Vec --------------------------------
(* 3-vectors of Dyadic numbers. *)
EXTENDS Dyadic
V3Add(a, b) == <<DAdd(a[1], b[1]), DAdd(a[2], b[2]), DAdd(a[3], b[3])>>
V3Sub(a, b) == <<DSub(a[1], b[1]), DSub(a[2], b[2]), DSub(a[3], b[3])>>
Dot(a, b) == DAdd(DAdd(DMul(a[1], b[1]), DMul(a[2], b[2])), DMul(a[3], b[3]))
Cross(a, b) == << DSub(DMul(a[2], b[3]), DMul(a[3], b[2])),
                  DSub(DMul(a[3], b[1]), DMul(a[1], b[3])),
                  DSub(DMul(a[1], b[2]), DMul(a[2], b[1])) >>
VScale(c, a) == <<DMul(c, a[1]), DMul(c, a[2]), DMul(c, a[3])>>
Norm1(a) == DAdd(DAdd(DAbs(a[1]), DAbs(a[2])), DAbs(a[3]))
VFin(a) == IsFin(a[1]) /\ IsFin(a[2]) /\ IsFin(a[3])
VNonFin(a) == ~IsFin(a[1]) /\ ~IsFin(a[2]) /\ ~IsFin(a[3])
\* rotations by an angle given as certificate (c, s); same conventions as RealRays.rotate_*
RotX(v, c, s) == <<v[1], DSub(DMul(v[2], c), DMul(v[3], s)), DAdd(DMul(v[2], s), DMul(v[3], c))>>
RotY(v, c, s) == <<DAdd(DMul(v[1], c), DMul(v[3], s)), v[2], DSub(DMul(v[3], c), DMul(v[1], s))>>
RotZ(v, c, s) == <<DSub(DMul(v[1], c), DMul(v[2], s)), DAdd(DMul(v[1], s), DMul(v[2], c)), v[3]>>
=============================================================================
