-------------------------------- MODULE Lens --------------------------------
(* Abstract machine of the lens prescription (C01, C07 scale_system, C19      *)
(* save/load): append-only construction, the edit calls of Optic, pickups,    *)
(* wavelengths.  One action per public call; the call's return is its         *)
(* linearisation point (sequential library).                                  *)
(*                                                                            *)
(* Numbers are integers in units of 1/8 (lengths: 1/8 mm; tilts: 1/8 rad;     *)
(* conics and coefficients: 1/8) so that the implementation's float           *)
(* arithmetic on the corresponding values is exact and replayed behaviours    *)
(* can be compared bit for bit.  Media are tokens; a mirror keeps the medium. *)
(* The same actions, over exact dyadic numbers and arbitrary floats, judge    *)
(* recorded executions in Trace_Lens.                                          *)
EXTENDS Integers, Sequences, FiniteSets, TLC
CONSTANTS MaxSurf,      \* bound on the number of surfaces including the object
          Radii,        \* admissible radii (INF = plane)
          Thick,        \* admissible thicknesses
          Media,        \* admissible media tokens ("mirror" = reflecting surface)
          Conics, Tilts, Decs, Coefs, Waves,
          MaxWl, MaxPk, Kinds,
          Extras,       \* subset of {"scale", "saveload", "insert"}: which extra calls are explored
          Base          \* initial prescription (<<>> = empty lens)
INF == 1000000                                  \* stands for +infinity
VARIABLES surf,     \* sequence of surface records, surf[1] is the object
          lastT,    \* SurfaceFactory.last_thickness
          wl,       \* sequence of [v, primary]
          pk,       \* pickups: sequence of [src, attr, tgt, scale, off]
          tainted,  \* TRUE once a surface was inserted in the middle or removed: placement
                    \* (vertices, media chain) then has no documented semantics; only the
                    \* stop and wavelength clauses are stated for such histories
          hist      \* calls so far (behaviour export; hidden from MC by VIEW)
vars == <<surf, lastT, wl, pk, tainted, hist>>
View == <<surf, lastT, wl, pk, tainted>>
N == Len(surf)

Call(op, args) == hist' = Append(hist, [op |-> op, a |-> args])

Init == /\ surf = Base.surf /\ lastT = Base.lastT /\ wl = Base.wl /\ pk = <<>> /\ tainted = FALSE /\ hist = <<>>

--------------------------------------------------------------------------
(* Construction: SurfaceGroup.add_surface / SurfaceFactory.create_surface   *)
Vertex(i, t) == IF i = 1 THEN (IF t = INF THEN -INF ELSE -t)   \* object surface
                ELSE IF i = 2 THEN 0                              \* first surface at z = 0
                ELSE surf[i-1].z + lastT
AddSurface(kind, R, k, c1, t, med, stop, dx, rx) ==
  LET i    == N + 1                                \* append in index order only
      pre  == IF i = 1 THEN med ELSE surf[i-1].post
      post == IF med = "mirror" THEN pre ELSE med
      s    == [z |-> Vertex(i, t), R |-> R, k |-> k, c1 |-> c1, kind |-> kind,
               pre |-> pre, post |-> post, stop |-> stop /\ i > 1,
               refl |-> med = "mirror", dx |-> dx, rx |-> rx]
      old  == IF s.stop THEN [j \in 1..N |-> [surf[j] EXCEPT !.stop = FALSE]] ELSE surf
  IN /\ N < MaxSurf
     /\ (i = 1 => med # "mirror" /\ kind = "std" /\ R = INF /\ dx = 0 /\ rx = 0)
     /\ (i > 2 => lastT # INF)
     /\ (i > 1 => t # INF)
     /\ (kind = "std" => c1 = 0)
     /\ (R = INF /\ kind = "std" => k = 0)        \* a plane has no conic
     /\ surf' = Append(old, s) /\ lastT' = t /\ UNCHANGED <<wl, pk, tainted>>
     /\ Call("add_surface", [kind |-> kind, R |-> R, k |-> k, c1 |-> c1, t |-> t,
                             med |-> med, stop |-> stop, dx |-> dx, rx |-> rx])

--------------------------------------------------------------------------
(* Edits: Optic.set_radius / set_conic / set_thickness / set_index /        *)
(* set_asphere_coeff, tilt and decentre through their variables             *)
IsPlane(s) == s.kind = "std" /\ s.R = INF
SetRadiusF(sf, k, R) == [sf EXCEPT ![k].R = R]
\* (a plane cannot be the source of a radius pickup: scale * infinity + offset is not a radius)
SetRadius(k, R) == /\ k \in 2..N
                   /\ (R = INF => \A j \in 1..Len(pk) : ~(pk[j].attr = "radius" /\ pk[j].src = k))
                   /\ surf' = SetRadiusF(surf, k, R)
                   /\ UNCHANGED <<lastT, wl, pk, tainted>> /\ Call("set_radius", [k |-> k, v |-> R])
SetConic(k, c) == /\ k \in 2..N /\ ~IsPlane(surf[k])
                  /\ surf' = [surf EXCEPT ![k].k = c]
                  /\ UNCHANGED <<lastT, wl, pk, tainted>> /\ Call("set_conic", [k |-> k, v |-> c])
\* thickness after surface k (k = 1 is the object distance, finite objects only)
ThicknessOf(sf, k) == sf[k+1].z - sf[k].z
SetThicknessF(sf, k, v) ==
  LET d == v - ThicknessOf(sf, k)
      moved == [j \in 1..Len(sf) |-> IF j > k THEN [sf[j] EXCEPT !.z = @ + d] ELSE sf[j]]
      z2 == moved[2].z                                \* surface 1 is forced back to z = 0
  IN [j \in 1..Len(sf) |-> IF moved[j].z \in {INF, -INF} THEN moved[j]
                            ELSE [moved[j] EXCEPT !.z = @ - z2]]
SetThickness(k, v) ==
  /\ k \in 1..(N-1) /\ N >= 2
  /\ (k = 1 => surf[1].z # -INF)
  /\ surf' = SetThicknessF(surf, k, v)
  /\ UNCHANGED <<lastT, wl, pk, tainted>> /\ Call("set_thickness", [k |-> k, v |-> v])
\* (the object surface has one medium: its "pre" is by definition its "post")
SetIndexF(sf, k, m) == IF k = 1 THEN [sf EXCEPT ![1].pre = m, ![1].post = m, ![2].pre = m]
                       ELSE [sf EXCEPT ![k].post = m, ![k+1].pre = m]
SetIndex(k, m) == /\ k \in 1..(N-1) /\ m # "mirror"
                  /\ surf' = SetIndexF(surf, k, m)
                  /\ UNCHANGED <<lastT, wl, pk, tainted>> /\ Call("set_index", [k |-> k, v |-> m])
SetCoeff(k, c) == /\ k \in 2..N /\ surf[k].kind = "asph"
                  /\ surf' = [surf EXCEPT ![k].c1 = c]
                  /\ UNCHANGED <<lastT, wl, pk, tainted>> /\ Call("set_asphere_coeff", [k |-> k, v |-> c])
SetTilt(k, a) == /\ k \in 2..N
                 /\ surf' = [surf EXCEPT ![k].rx = a]
                 /\ UNCHANGED <<lastT, wl, pk, tainted>> /\ Call("set_tilt", [k |-> k, v |-> a])
SetDecentre(k, a) == /\ k \in 2..N
                     /\ surf' = [surf EXCEPT ![k].dx = a]
                     /\ UNCHANGED <<lastT, wl, pk, tainted>> /\ Call("set_decentre", [k |-> k, v |-> a])

--------------------------------------------------------------------------
(* Wavelengths: WavelengthGroup.add_wavelength                               *)
AddWavelength(v, p) ==
  /\ Len(wl) < MaxWl
  /\ wl' = Append(IF p THEN [j \in 1..Len(wl) |-> [wl[j] EXCEPT !.primary = FALSE]] ELSE wl,
                  [v |-> v, primary |-> p \/ wl = <<>>])
  /\ UNCHANGED <<surf, lastT, pk, tainted>> /\ Call("add_wavelength", [v |-> v, p |-> p])

--------------------------------------------------------------------------
(* Pickups: PickupManager.add applies once and remembers; Optic.update()    *)
(* re-applies all of them in list order.                                     *)
AttrOf(sf, k, attr) == CASE attr = "radius" -> sf[k].R
                         [] attr = "conic" -> sf[k].k
                         [] attr = "thickness" -> ThicknessOf(sf, k)
ApplyPickupF(sf, p) ==
  LET v == p.scale * AttrOf(sf, p.src, p.attr) + p.off IN
  CASE p.attr = "radius" -> SetRadiusF(sf, p.tgt, v)
    [] p.attr = "conic" -> [sf EXCEPT ![p.tgt].k = v]
    [] p.attr = "thickness" -> SetThicknessF(sf, p.tgt, v)
RECURSIVE ApplyAllF(_, _)
ApplyAllF(sf, ps) == IF ps = <<>> THEN sf ELSE ApplyAllF(ApplyPickupF(sf, Head(ps)), Tail(ps))
\* admissible pickups: finite source value, source is not itself a target
\* (pickups are applied in list order, so a chained source would be stale)
PickupOK(p) ==
  /\ p.src # p.tgt
  /\ p.attr = "thickness" => (p.src \in 2..(N-1) /\ p.tgt \in 2..(N-1))
  /\ p.attr \in {"radius", "conic"} => (p.src \in 2..N /\ p.tgt \in 2..N
                                         /\ ~IsPlane(surf[p.src]) /\ ~IsPlane(surf[p.tgt]))
  /\ p.attr = "radius" => (surf[p.src].R # INF /\ p.scale * surf[p.src].R + p.off # 0)
  /\ \A j \in 1..Len(pk) : pk[j].attr = p.attr =>
        (pk[j].tgt # p.src /\ pk[j].src # p.tgt /\ pk[j].tgt # p.tgt)
PickupAdd(p) == /\ Len(pk) < MaxPk /\ PickupOK(p)
                /\ surf' = ApplyPickupF(surf, p) /\ pk' = Append(pk, p)
                /\ UNCHANGED <<lastT, wl, tainted>> /\ Call("pickup_add", p)
Update == /\ pk # <<>>
          /\ surf' = ApplyAllF(surf, pk)
          /\ UNCHANGED <<lastT, wl, pk, tainted>> /\ Call("update", [x |-> 0])

--------------------------------------------------------------------------
(* Optic.scale_system(s): radii, thicknesses (C07).  s is a positive integer *)
(* here; dyadic fractions are exercised by the trace spec.                    *)
ScaleF(sf, s) == [j \in 1..Len(sf) |->
                    [sf[j] EXCEPT !.R = IF @ \in {INF, -INF} THEN @ ELSE @ * s,
                                  !.z = IF @ \in {INF, -INF} THEN @ ELSE @ * s]]
ScaleSystem(s) == /\ N >= 3
                  /\ \A j \in 1..N : surf[j].kind = "std"   \* documented to scale planes/conics only
                  /\ surf' = ScaleF(surf, s)
                  /\ UNCHANGED <<lastT, wl, pk, tainted>> /\ Call("scale_system", [v |-> s])

(* to_dict / from_dict, save / load: the prescription is unchanged and the   *)
(* reloaded lens continues the same history (C19).                            *)
SaveLoad(how) == /\ N >= 3 /\ wl # <<>>
                 /\ UNCHANGED <<surf, lastT, wl, pk, tainted>> /\ Call("save_load", [how |-> how])

--------------------------------------------------------------------------
(* Insertion in the middle and removal (SurfaceGroup.add_surface with an      *)
(* index inside the lens, remove_surface): only the stop flags, the surface   *)
(* count and the wavelengths are specified.                                    *)
Blank(stop) == [z |-> 0, R |-> INF, k |-> 0, c1 |-> 0, kind |-> "std", pre |-> "air", post |-> "air",
                stop |-> stop, refl |-> FALSE, dx |-> 0, rx |-> 0]
InsertSurface(i, stop) ==
  LET old == IF stop THEN [j \in 1..N |-> [surf[j] EXCEPT !.stop = FALSE]] ELSE surf IN
  /\ "insert" \in Extras /\ N >= 3 /\ N < MaxSurf /\ i \in 2..N
  /\ surf' = SubSeq(old, 1, i - 1) \o <<Blank(stop)>> \o SubSeq(old, i, N)
  /\ tainted' = TRUE /\ pk' = <<>> /\ lastT' = 0 /\ UNCHANGED wl
  /\ Call("insert_surface", [i |-> i, stop |-> stop])
RemoveSurface(i) ==
  /\ "insert" \in Extras /\ N >= 4 /\ i \in 2..(N-1)
  /\ surf' = SubSeq(surf, 1, i - 1) \o SubSeq(surf, i + 1, N)
  /\ tainted' = TRUE /\ pk' = <<>> /\ UNCHANGED <<lastT, wl>>
  /\ Call("remove_surface", [i |-> i])

--------------------------------------------------------------------------
Build == \E kind \in Kinds, R \in Radii, k \in Conics, c1 \in Coefs,
            t \in Thick \cup {INF}, m \in Media, s \in BOOLEAN, dx \in Decs, rx \in Tilts :
            AddSurface(kind, R, k, c1, t, m, s, dx, rx)
Edit  == \/ \E k \in 1..MaxSurf, R \in Radii : SetRadius(k, R)
         \/ \E k \in 1..MaxSurf, c \in Conics : SetConic(k, c)
         \/ \E k \in 1..MaxSurf, v \in Thick : SetThickness(k, v)
         \/ \E k \in 1..MaxSurf, m \in Media : SetIndex(k, m)
         \/ \E k \in 1..MaxSurf, c \in Coefs : SetCoeff(k, c)
         \/ \E k \in 1..MaxSurf, a \in Tilts : SetTilt(k, a)
         \/ \E k \in 1..MaxSurf, a \in Decs : SetDecentre(k, a)
         \/ \E v \in Waves, p \in BOOLEAN : AddWavelength(v, p)
Pick  == \/ \E src \in 1..MaxSurf, tgt \in 1..MaxSurf, attr \in {"radius", "conic", "thickness"},
               sc \in {1, -1, 2}, off \in {0, 8} :
               PickupAdd([src |-> src, attr |-> attr, tgt |-> tgt, scale |-> sc, off |-> off])
         \/ Update
Misc  == \/ \E i \in 1..MaxSurf, st \in BOOLEAN : InsertSurface(i, st)
         \/ \E i \in 1..MaxSurf : RemoveSurface(i)
         \/ "scale" \in Extras /\ \E s \in {2, 3} : ScaleSystem(s)
         \/ "saveload" \in Extras /\ \E how \in {"dict", "file"} : SaveLoad(how)
(* Optic.reset(): the Optic is as newly constructed - no surfaces, no          *)
(* wavelengths, no pickups, nothing carried over (the factory's pending       *)
(* thickness included); whatever is built on it afterwards behaves like a     *)
(* lens built on a fresh Optic.                                               *)
Reset == /\ "reset" \in Extras /\ N >= 1
         /\ surf' = <<>> /\ lastT' = 0 /\ wl' = <<>> /\ pk' = <<>> /\ tainted' = FALSE
         /\ Call("reset", [x |-> 0])
NextBuild == Build \/ Reset
NextEdit  == N >= 3 /\ ((~tainted /\ (Edit \/ Pick)) \/ Misc
                       \/ (tainted /\ \E v \in Waves, p \in BOOLEAN : AddWavelength(v, p)))
Next == Build \/ NextEdit \/ Reset
SpecBuild == Init /\ [][NextBuild]_vars
SpecEdit  == Init /\ [][NextEdit]_vars
Spec      == Init /\ [][Next]_vars

--------------------------------------------------------------------------
(* The structural clauses of C01                                             *)
FirstAtZero   == (~tainted /\ N >= 2) => surf[2].z = 0
MediumChain   == ~tainted => \A j \in 2..N : surf[j].pre = surf[j-1].post
AtMostOneStop == Cardinality({j \in 1..N : surf[j].stop}) <= 1
OnePrimary    == wl # <<>> => Cardinality({j \in 1..Len(wl) : wl[j].primary}) = 1
ObjectBehind  == (~tainted /\ N >= 2) => surf[1].z <= 0
\* informational (not a C01 clause): set_index before a mirror leaves the
\* mirror's material_post stale
MirrorKeeps   == \A j \in 2..N : surf[j].refl => surf[j].post = surf[j].pre
\* vertex = running sum of the thicknesses *given* (append-only histories):
\* checked as an action property of AddSurface
VertexRunningSum ==
  [][\A kind \in Kinds, R \in Radii, k \in Conics, c1 \in Coefs,
        t \in Thick \cup {INF}, m \in Media, s \in BOOLEAN, dx \in Decs, rx \in Tilts :
        AddSurface(kind, R, k, c1, t, m, s, dx, rx) =>
          LET i == N + 1 IN
          /\ (i >= 3 => surf'[i].z = surf[i-1].z + lastT)
          /\ (i = 2 => surf'[i].z = 0)
          /\ surf'[i].pre = (IF i = 1 THEN surf'[i].post ELSE surf[i-1].post)
          /\ \A j \in 1..N : [surf'[j] EXCEPT !.stop = FALSE] = [surf[j] EXCEPT !.stop = FALSE]]_vars
\* frame conditions as action properties
Others(k) == \A j \in 1..N : j # k => surf'[j] = surf[j]
RadiusFrame == [][\A k \in 1..MaxSurf, R \in Radii : SetRadius(k, R) =>
                    /\ surf'[k] = [surf[k] EXCEPT !.R = R] /\ Others(k) /\ wl' = wl]_vars
ConicFrame == [][\A k \in 1..MaxSurf, c \in Conics : SetConic(k, c) =>
                    /\ surf'[k] = [surf[k] EXCEPT !.k = c] /\ Others(k) /\ wl' = wl]_vars
IndexFrame == [][\A k \in 1..MaxSurf, m \in Media : SetIndex(k, m) =>
                    /\ surf'[k].post = m /\ surf'[k+1].pre = m
                    /\ \A j \in 1..N : [surf'[j] EXCEPT !.pre = 0, !.post = 0] = [surf[j] EXCEPT !.pre = 0, !.post = 0]
                    /\ \A j \in 1..N : (j # k => surf'[j].post = surf[j].post)
                                       /\ (j # k+1 /\ ~(j = 1 /\ k = 1) => surf'[j].pre = surf[j].pre)]_vars
ThicknessFrame == [][\A k \in 1..MaxSurf, v \in Thick : SetThickness(k, v) =>
                    /\ surf'[k+1].z - surf'[k].z = v
                    /\ surf'[2].z = 0
                    /\ \A j \in 1..(N-1) : j # k /\ surf[j].z # -INF =>
                          surf'[j+1].z - surf'[j].z = surf[j+1].z - surf[j].z   \* rigid
                    /\ \A j \in 1..N : [surf'[j] EXCEPT !.z = 0] = [surf[j] EXCEPT !.z = 0]]_vars
\* after update() every pickup holds
PickupsHoldIn(sf) == \A j \in 1..Len(pk) :
                        AttrOf(sf, pk[j].tgt, pk[j].attr) = pk[j].scale * AttrOf(sf, pk[j].src, pk[j].attr) + pk[j].off
PickupsAfterUpdate == [][Update => PickupsHoldIn(surf')]_vars
ScaleFrame == [][\A s \in {2, 3} : ScaleSystem(s) =>
                   \A j \in 1..N : /\ (surf[j].R # INF => surf'[j].R = s * surf[j].R)
                                   /\ (j < N /\ surf[j].z # -INF => ThicknessOf(surf', j) = s * ThicknessOf(surf, j))
                                   /\ surf'[j].k = surf[j].k /\ surf'[j].post = surf[j].post]_vars
---------------------------------------------------------------------------
(* Refinement of spec/LensStructure.tla (the flag structure, proved inductive  *)
(* for lenses of every size by Apalache): every step of this module is a step  *)
(* of LensStructure on the projection below, or leaves the projection alone.   *)
LS == INSTANCE LensStructure WITH n <- 0, stops <- {}, w <- 0, prim <- {}     \* (its step predicates take explicit values)
StopSet(sf) == {j \in 1..Len(sf) : sf[j].stop}
PrimSet(ws) == {j \in 1..Len(ws) : ws[j].primary}
StructStep ==
  LET n0 == Len(surf)   n1 == Len(surf')
      S0 == StopSet(surf)   S1 == StopSet(surf')
      w0 == Len(wl)   w1 == Len(wl')
      P0 == PrimSet(wl)   P1 == PrimSet(wl')
  IN \/ <<n1, S1, w1, P1>> = <<n0, S0, w0, P0>>
     \/ LS!AReset(n1, S1, w1, P1)
     \/ /\ <<w1, P1>> = <<w0, P0>>
        /\ \/ \E st \in BOOLEAN : LS!AAppend(st, n0, S0, n1, S1)
           \/ \E st \in BOOLEAN, i \in 1..n0 : LS!AInsert(i, st, n0, S0, n1, S1)
           \/ \E i \in 1..n0 : LS!ARemove(i, n0, S0, n1, S1)
     \/ /\ <<n1, S1>> = <<n0, S0>>
        /\ \E p \in BOOLEAN : LS!AAddWl(p, w0, P0, w1, P1)
StructureRefined == [][StructStep]_vars
=============================================================================
