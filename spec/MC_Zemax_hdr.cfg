\* header: mode, aperture keyword and value, field type, 1-3 fields (padded, repeated, unsorted),
\* 1-3 wavelengths (padded) with any primary, PWAV before or after WAVM, unknown lines anywhere;
\* one lens shape (object, one glass surface, plain image)
SPECIFICATION Spec
CONSTANTS
  U = 1024
  MinSurf = 3
  MaxSurf = 3
  Modes <- BothModes
  Apertures <- Ap3
  GcatLists <- NoGcat
  FieldTypes <- FtBoth
  FieldPairs <- FP3
  MaxFld = 2
  PadFld <- Pad02
  Waves <- W2
  MaxWl = 2
  PadWl <- Pad02
  PwavFirst <- PwBoth
  Types <- StdOnly
  TypeOpt <- TypeReq
  Curvs <- C1
  Thicks <- T1
  ObjThicks <- ObjInf
  Conics <- NoneAtAll
  ParmRows <- Rows1
  Glasses <- GQ
  ImageFree = FALSE
  Noise <- Noise2
  MaxNoise = 1
  Catalogue <- MCCatalogue
  Export = FALSE
INVARIANT RejectsNSC
INVARIANT FinishTotal
INVARIANT GridExact
INVARIANT SurfaceCount
INVARIANT RadiusLaw
INVARIANT VertexLaw
INVARIANT ConicLaw
INVARIANT ParmLaw
INVARIANT StopLaw
INVARIANT MediumLaw
INVARIANT WaveLaw
INVARIANT FieldLaw
INVARIANT ApertureLaw
PROPERTY UnknownStutters
PROPERTY BlockFrame
PROPERTY SurfPushes
CHECK_DEADLOCK FALSE
