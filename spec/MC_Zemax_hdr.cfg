\* header: mode, aperture keyword, field type, 1-2 fields (padded, repeated, unsorted),
\* 1-2 wavelengths with any primary, PWAV before or after WAVM (the driver's header grids add
\* padding and unknown lines, one mechanism at a time);
\* one lens shape (object, one glass surface, plain image)
SPECIFICATION Spec
CONSTANTS
  U = 1024
  MinSurf = 3
  MaxSurf = 3
  Modes <- BothModes
  Apertures <- Ap3
  GcatLists <- NoGcat
  FieldTypes <- FtBoth
  FieldPairs <- FP2
  MaxFld = 2
  PadFld <- Pad01
  Waves <- W2
  MaxWl = 2
  PadWl <- Pad0
  PwavFirst <- PwBoth
  Types <- StdOnly
  TypeOpt <- TypeReq
  Curvs <- C1
  Thicks <- T1
  ObjThicks <- ObjInf
  Conics <- NoneAtAll
  ParmRows <- Rows1
  Glasses <- GQ
  ImageFree = FALSE
  Noise <- NoNoise
  MaxNoise = 0
  Catalogue <- MCCatalogue
  Export = FALSE
  ExportMod = 1
INVARIANT RejectsNSC
INVARIANT FinishTotal
INVARIANT GridExact
INVARIANT SurfaceCount
INVARIANT RadiusLaw
INVARIANT VertexLaw
INVARIANT ConicLaw
INVARIANT ParmLaw
INVARIANT StopLaw
INVARIANT MediumLaw
INVARIANT WaveLaw
INVARIANT FieldLaw
INVARIANT ApertureLaw
PROPERTY UnknownStutters
PROPERTY BlockFrame
PROPERTY SurfPushes
CHECK_DEADLOCK FALSE
