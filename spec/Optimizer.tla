------------------------------ MODULE Optimizer ------------------------------
(* The optimisation protocol of optiland (C14) with scipy as nondeterministic *)
(* environment.  The lens is reduced to what the protocol can change: the     *)
(* variable vector `x` (one candidate point out of a tiny grid) and one        *)
(* dependent quantity `dep` kept by a pickup / solve (dep = Pick[x] whenever   *)
(* Optic.update() has run since x was set).                                    *)
(*                                                                            *)
(*   Start            optimize() entered: x0 is read and pushed on the stack   *)
(*   Evaluate(p)      scipy calls the objective in this process: the callback  *)
(*                    sets every variable to p, updates the optics (pickups,   *)
(*                    solves) and yields F[p]                                  *)
(*   EvaluateRemote(p) multi-process differential evolution: the objective is  *)
(*                    evaluated on a copy in a worker; this lens is unchanged  *)
(*   Return(p)        scipy returns (p, F[p]); its contract: p was evaluated,  *)
(*                    p is within the bounds it was given, F[p] <= F[x0]       *)
(*   Finish           the library's step after scipy returns: re-install p     *)
(*                    and update the optics (Finish = FALSE: the library       *)
(*                    returns scipy's result untouched - negative variant)     *)
(*   Undo             pop the stack, re-install the popped vector (and update  *)
(*                    the optics iff UndoUpdates)                              *)
(*                                                                            *)
(* The property (C14) is stated at phase = "idle" after a run.                *)
EXTENDS Integers, Sequences, FiniteSets, TLC
CONSTANTS Points,       \* candidate points (the tiny grid)
          FSet,         \* admissible merit functions: set of [Points -> Nat]
          InB,          \* the points within the bounds given to scipy (subset of Points)
          Pick,         \* [Points -> value]: the pickup / solve relation dep = Pick[x]
          Modes,        \* subset of {"inproc", "multi"}
          Finish,       \* BOOLEAN: the library re-installs the returned point
          UndoUpdates,  \* BOOLEAN: undo() re-applies pickups and solves
          MaxEvals,     \* evaluations per run (in-process + remote)
          MaxStack      \* runs not yet undone
VARIABLES F,        \* the merit function of this behaviour (chosen once)
          mode,     \* worker mode of this behaviour
          lens,     \* [x, dep]
          stack,    \* the library's history: variable vectors only
          pre,      \* ghost: full lens snapshots parallel to stack
          phase,    \* "idle" | "running" | "returned"
          seen,     \* points evaluated in the current run (either kind)
          nev,      \* evaluations in the current run
          x0,       \* start vector of the last run
          last,     \* ghost: last point evaluated in this process in the last run (0: none)
          ret       \* [x, fun] returned by scipy in the last run, or NoRet
vars == <<F, mode, lens, stack, pre, phase, seen, nev, x0, last, ret>>
NoRet == [x |-> 0, fun |-> -1]
Install(p) == [x |-> p, dep |-> Pick[p]]           \* set variables, then Optic.update()

Init == /\ F \in FSet /\ mode \in Modes
        /\ lens \in {Install(p) : p \in InB}        \* a consistent lens, start within bounds
        /\ stack = <<>> /\ pre = <<>> /\ phase = "idle" /\ seen = {} /\ nev = 0
        /\ x0 = lens.x /\ last = 0 /\ ret = NoRet

Start == /\ phase = "idle" /\ Len(stack) < MaxStack
         /\ phase' = "running" /\ x0' = lens.x
         /\ stack' = Append(stack, lens.x) /\ pre' = Append(pre, lens)
         /\ seen' = {} /\ nev' = 0 /\ ret' = NoRet /\ last' = 0
         /\ UNCHANGED <<F, mode, lens>>
\* scipy evaluates the start point first, and only points within the bounds
CanEval(p) == /\ phase = "running" /\ nev < MaxEvals /\ p \in InB
              /\ (seen = {} => p = x0)
Evaluate(p) == /\ CanEval(p)
               /\ lens' = Install(p) /\ seen' = seen \cup {p} /\ nev' = nev + 1 /\ last' = p
               /\ UNCHANGED <<F, mode, stack, pre, phase, x0, ret>>
EvaluateRemote(p) == /\ mode = "multi" /\ CanEval(p)
                     /\ seen' = seen \cup {p} /\ nev' = nev + 1
                     /\ UNCHANGED <<F, mode, lens, stack, pre, phase, x0, last, ret>>
Return(p) == /\ phase = "running" /\ x0 \in seen /\ p \in seen /\ F[p] <= F[x0]
             /\ ret' = [x |-> p, fun |-> F[p]] /\ phase' = "returned"
             /\ UNCHANGED <<F, mode, lens, stack, pre, seen, nev, x0, last>>
Finalize == /\ phase = "returned" /\ phase' = "idle"
            /\ lens' = IF Finish THEN Install(ret.x) ELSE lens
            /\ UNCHANGED <<F, mode, stack, pre, seen, nev, x0, last, ret>>
Undo == /\ phase = "idle" /\ stack # <<>>
        /\ LET p == stack[Len(stack)] IN
             lens' = IF UndoUpdates THEN Install(p) ELSE [lens EXCEPT !.x = p]
        /\ stack' = SubSeq(stack, 1, Len(stack) - 1) /\ pre' = SubSeq(pre, 1, Len(pre) - 1)
        /\ ret' = NoRet
        /\ UNCHANGED <<F, mode, phase, seen, nev, x0, last>>
Next == \/ Start \/ Finalize \/ Undo
        \/ \E p \in Points : Evaluate(p) \/ EvaluateRemote(p) \/ Return(p)
Spec == Init /\ [][Next]_vars

--------------------------------------------------------------------------
(* C14, at phase = "idle" after a run                                        *)
AfterRun == phase = "idle" /\ ret # NoRet
LensAtReturned  == AfterRun => lens.x = ret.x
MeritAtReturned == AfterRun => F[lens.x] = ret.fun
NotWorse        == AfterRun => ret.fun <= F[x0]
WithinBounds    == AfterRun => lens.x \in InB
PickupsHold     == phase = "idle" => lens.dep = Pick[lens.x]
\* undo() restores the lens to its state before the run that is undone
UndoRestores == [][Undo => lens' = pre[Len(pre)]]_vars
\* the library's stack is the variable part of the snapshots
StackIsPre == /\ Len(stack) = Len(pre)
              /\ \A i \in 1..Len(stack) : stack[i] = pre[i].x
TypeOK == /\ lens.x \in Points /\ phase \in {"idle", "running", "returned"}
          /\ seen \subseteq Points /\ nev \in 0..MaxEvals
\* the shape of the deviation when the library does not finish (negative
\* variant): the lens is left at the last in-process evaluation, or untouched
\* when every evaluation was remote
DeviationShape == (AfterRun /\ ~Finish) => lens.x = (IF last = 0 THEN x0 ELSE last)
=============================================================================
