--------------------------- MODULE Trace_RayStep ---------------------------
(* Trace validation for C02 / C16: the recorded (ray, surface) events of real *)
(* traces are consumed in order; a per-ray machine carries the previous       *)
(* surface's record so that each event's "incoming" data is bound to what the *)
(* implementation recorded one surface earlier, and RayStep's laws judge the  *)
(* step.  MODE (environment) selects the clause family: "ray" (C02),          *)
(* "intensity" (C16) or "both".                                               *)
EXTENDS RayStep, Json, IOUtils, TLC
Trace == JsonDeserialize(IOEnv.TRACE_FILE)
Mode == IF "RAYSTEP_MODE" \in DOMAIN IOEnv THEN IOEnv.RAYSTEP_MODE ELSE "both"
VARIABLES tpos, tprev
vars == <<tpos, tprev>>
NoPrev == [ray |-> -1]
Chained(e) == \/ e.first
              \/ /\ tprev.ray = e.ray
                 /\ tprev.p = e.p0 /\ tprev.d = e.d0 /\ tprev.o = e.o0 /\ tprev.i = e.i0
Judge(e) ==
  (IF Chained(e) THEN {} ELSE {"chain"}) \cup
  (IF Mode \in {"ray", "both"} THEN JudgeRay(e) ELSE {}) \cup
  (IF Mode \in {"intensity", "both"} THEN JudgeIntensity(e) ELSE {})
Init == tpos = 0 /\ tprev = NoPrev
Next == /\ tpos < Len(Trace)
        /\ LET e == Trace[tpos + 1] IN
             /\ PrintT(<<"V", e.id, Judge(e)>>)
             /\ tprev' = [ray |-> e.ray, p |-> e.p, d |-> e.d, o |-> e.o, i |-> e.i]
        /\ tpos' = tpos + 1
Spec == Init /\ [][Next]_vars
Done == TLCGet("stats").diameter - 1 = Len(Trace) /\ PrintT(<<"DONE", Len(Trace)>>)
=============================================================================
