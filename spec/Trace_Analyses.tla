--------------------------- MODULE Trace_Analyses ---------------------------
(* Trace validation for C12.  Each event carries what one analysis object of  *)
(* the implementation reported (its .data, centroid(), rms_spot_radius(), ... ) *)
(* together with the rays of the same samples traced independently by the     *)
(* driver; spec/Analyses.tla evaluates the sampling contract and the laws on  *)
(* them and the names of the failing clauses are printed.  Names starting     *)
(* with "~" are notes (input outside the domain of a clause), not failures.   *)
EXTENDS Analyses, Json, IOUtils, TLC
Trace == JsonDeserialize(IOEnv.TRACE_FILE)
VARIABLE tpos
Init == tpos = 0
Next == /\ tpos < Len(Trace)
        /\ LET e == Trace[tpos + 1] IN PrintT(<<"V", e.id, Judge(e)>>)
        /\ tpos' = tpos + 1
Spec == Init /\ [][Next]_tpos
Done == TLCGet("stats").diameter - 1 = Len(Trace) /\ PrintT(<<"DONE", Len(Trace)>>)
=============================================================================
