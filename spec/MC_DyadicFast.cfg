SPECIFICATION Spec
CONSTANT Tier = "thorough"
INVARIANTS SameSum SameDiff SameProd SameSmall TruncOK MagOK
CHECK_DEADLOCK FALSE
