----------------------------- MODULE Trace_Meta -----------------------------
(* C07: metamorphic relations between two executions of the real code - the   *)
(* original lens/query (records a) and a transformed one (records b).  Each   *)
(* event carries per-ray, per-surface records [x, y, z, L, M, N, o] of both    *)
(* runs on the surfaces that correspond to each other, plus scalars (f2,       *)
(* Seidel sums) where the relation speaks of them.  TLC evaluates the relation *)
(* in exact dyadic arithmetic.                                                 *)
(*   kind = "mirror_x" | "mirror_y" | "mirror_xy": field and pupil mirrored    *)
(*          about a meridional plane of a rotationally symmetric lens          *)
(*   kind = "same": re-descriptions that change nothing downstream (tilt of a  *)
(*          sphere about its centre of curvature, dummy surface between equal  *)
(*          media, other wavelength of a dispersion-free lens)                 *)
(*   kind = "scale": every length multiplied by s                              *)
EXTENDS Dyadic, Json, IOUtils, TLC
Trace == JsonDeserialize(IOEnv.TRACE_FILE)
VARIABLE tpos
\* sign pattern applied to [x, y, z, L, M, N, o]
Sx == <<-1, 1, 1, -1, 1, 1, 1>>
Sy == <<1, -1, 1, 1, -1, 1, 1>>
Sxy == <<-1, -1, 1, -1, -1, 1, 1>>
None == <<1, 1, 1, 1, 1, 1, 1>>
Flip(v, sg) == IF sg = 1 THEN v ELSE DNeg(v)
\* two values agree: both non-finite, or within 2^-bits of (|a| + |b| + floor)
Same(a, b, floor, bits) == IF IsFin(a) /\ IsFin(b)
                           THEN Small(DSub(a, b), DAdd(DAdd(DAbs(a), DAbs(b)), floor), bits)
                           ELSE ~IsFin(a) /\ ~IsFin(b)
\* lengths are entries 1, 2, 3, 7 (positions, path); directions 4, 5, 6
RecRel(ra, rb, sg, s, floor, bits) ==
  \A i \in 1..7 : LET want == IF i \in {1, 2, 3, 7} THEN DMul(s, Flip(ra[i], sg[i])) ELSE Flip(ra[i], sg[i])
                  IN Same(want, rb[i], IF i \in {1, 2, 3, 7} THEN DMul(DAbs(s), floor) ELSE DOne, bits)
AllRecs(e, sg, s) ==
  /\ Len(e.a) = Len(e.b)
  /\ \A r \in 1..Len(e.a) : /\ Len(e.a[r]) = Len(e.b[r])
                            /\ \A k \in 1..Len(e.a[r]) : RecRel(e.a[r][k], e.b[r][k], sg, s, e.floor, e.bits)
Scalars(e, s) == \A i \in 1..Len(e.sa) : Same(DMul(s, e.sa[i]), e.sb[i], DMul(DAbs(s), e.sfloor), e.sbits)
Judge(e) ==
  IF e.exc # "" THEN {"raises"}
  ELSE IF e.kind = "mirror_x" THEN (IF AllRecs(e, Sx, DOne) THEN {} ELSE {"mirror_x"})
  ELSE IF e.kind = "mirror_y" THEN (IF AllRecs(e, Sy, DOne) THEN {} ELSE {"mirror_y"})
  ELSE IF e.kind = "mirror_xy" THEN (IF AllRecs(e, Sxy, DOne) THEN {} ELSE {"mirror_xy"})
  ELSE IF e.kind = "same" THEN (IF AllRecs(e, None, DOne) THEN {} ELSE {e.name})
  ELSE IF e.kind = "scale" THEN (IF AllRecs(e, None, e.s) THEN {} ELSE {"scale_rays"}) \cup
                                (IF Scalars(e, e.s) THEN {} ELSE {"scale_first_and_third_order"})
  ELSE {"unknown_kind"}
Init == tpos = 0
Next == /\ tpos < Len(Trace)
        /\ tpos' = tpos + 1
        /\ PrintT(<<"V", Trace[tpos + 1].id, Judge(Trace[tpos + 1])>>)
Spec == Init /\ [][Next]_tpos
Done == TLCGet("stats").diameter - 1 = Len(Trace) /\ PrintT(<<"DONE", Len(Trace)>>)
=============================================================================
