------------------------------- MODULE Session -------------------------------
(* C13: tracing and analysis are repeatable and free of side effects.         *)
(*                                                                            *)
(* A session is a history of calls on one lens.  Edit calls change the        *)
(* prescription; every other call is a *query*.  The library is modelled as   *)
(* a function of (prescription, call): Lib[p][c] is the result the library    *)
(* returns for call c on prescription p - an uninterpreted token (in traces:  *)
(* the SHA-256 of the raw bytes of the result, interned to a small integer).  *)
(* The model also carries the hidden per-surface "last trace" record that     *)
(* real code keeps, so that hazard variants (a query whose result depends on   *)
(* that record, or that edits the prescription) can be stated and shown to     *)
(* violate the properties.                                                     *)
EXTENDS Integers, Sequences, FiniteSets, TLC
CONSTANTS Presc,        \* prescriptions (tokens)
          Calls,        \* query calls (tokens)
          Lib,          \* Lib[p][c]: result token of a correct library
          Hazard        \* "none" | "stale_record" | "query_edits" | "arg_mutation"
VARIABLES presc,        \* current prescription
          memo,         \* results seen so far: function on a subset of Presc \X Calls
          hidden,       \* last call traced (the per-surface records of real code)
          ok            \* verdicts accumulated: set of violated clause names
vars == <<presc, memo, hidden, ok>>

Init == presc \in Presc /\ memo = <<>> /\ hidden = "none" /\ ok = {}

Key(p, c) == <<p, c>>
Seen(k) == k \in DOMAIN memo
\* what the (possibly hazardous) library returns for call c
Result(c) == [v |-> Lib[presc][c],
              h |-> IF Hazard = "stale_record" /\ hidden # c THEN hidden ELSE "none"]   \* stale: depends on what was traced before
Query(c) ==
  LET r == Result(c)
      k == Key(presc, c)
      argsOK == Hazard # "arg_mutation"
      p2 == IF Hazard = "query_edits" /\ c = CHOOSE x \in Calls : TRUE
            THEN CHOOSE q \in Presc : q # presc ELSE presc
  IN /\ ok' = ok \cup (IF Seen(k) /\ memo[k] # r THEN {"repeatable"} ELSE {})
                  \cup (IF p2 # presc THEN {"frame"} ELSE {})
                  \cup (IF argsOK THEN {} ELSE {"args_unchanged"})
     /\ memo' = IF Seen(k) THEN memo ELSE [x \in DOMAIN memo \cup {k} |-> IF x = k THEN r ELSE memo[x]]
     /\ presc' = p2
     /\ hidden' = c
Edit(p) == /\ p # presc /\ presc' = p /\ UNCHANGED <<memo, ok>> /\ hidden' = "none"
Next == (\E c \in Calls : Query(c)) \/ (\E p \in Presc : Edit(p))
Spec == Init /\ [][Next]_vars

\* the property: no clause is ever violated
Clean == ok = {}
\* results are a function of (prescription, call) and nothing else
Functional == \A k \in DOMAIN memo : memo[k] = [v |-> Lib[k[1]][k[2]], h |-> "none"]
=============================================================================
