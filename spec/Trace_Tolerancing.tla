-------------------------- MODULE Trace_Tolerancing --------------------------
(* Trace validation for C15: recorded runs of SensitivityAnalysis.run and      *)
(* MonteCarlo.run.  The machine of spec/Tolerancing.tla over exact dyadic       *)
(* numbers: `st` holds the nominal operand values, the nominal values of the    *)
(* perturbed quantities, the projection before the run, the samplers, the rows  *)
(* of this session and the rows of the previous session (same construction,     *)
(* same seed).  Each "row" event carries the row of get_results() AND the       *)
(* operand values re-derived by the driver on a from_dict(to_dict()) copy of    *)
(* the nominal lens with the recorded perturbation values and the recorded      *)
(* compensator values applied; TLC compares them.                               *)
(*                                                                            *)
(* events:  begin | row | end | reset                                           *)
EXTENDS LensNear, Json, IOUtils, TLC, FiniteSets, SequencesExt
Trace == JsonDeserialize(IOEnv.TRACE_FILE)
VARIABLES l, st
vars == <<l, st>>
Empty == [on |-> FALSE, session |-> 0, analysis |-> "", nom_ops |-> <<>>, nom_pert |-> <<>>, proj |-> <<>>,
          zmax |-> DOne, has_comp |-> FALSE, samplers |-> <<>>, rows |-> <<>>, rows1 |-> <<>>]

\* operand values: without compensation the same computation on the same prescription -
\* identical up to the last bits (set_thickness moves the later vertices by a computed
\* difference, so a vertex reached through another history can differ by an ulp): 2^-44 of
\* the operand's magnitude, NaN = NaN; with compensation an optimiser ran in between:
\* agreement to `bits` of the operand's nominal magnitude
SameOp(a, b, nom, exact, bits) ==
  a = b \/ (IsFin(a) /\ IsFin(b) /\
            Small(DSub(a, b), DAdd(Sum2(a, b), IF IsFin(nom) THEN DAbs(nom) ELSE DZero),
                  IF exact THEN 44 ELSE bits))
SameOps(a, b, nom, exact, bits) ==
  Len(a) = Len(b) /\ Len(a) = Len(nom) /\ \A j \in 1..Len(a) : SameOp(a[j], b[j], nom[j], exact, bits)

Begin(e) ==
  (IF e.targets = e.nom_ops THEN {} ELSE {"targets_nominal"}) \cup
  (IF \A j \in 1..Len(e.nom_ops) : IsFin(e.nom_ops[j]) THEN {} ELSE {"nominal_undefined"})

\* sampler laws, on the recorded perturbation values: a scalar sampler returns its
\* value; a range sampler returns the points of the linear range start..end, in
\* order, cycling:  v (steps-1) = start (steps-1-m) + end m,  m = trial mod steps;
\* a uniform distribution stays within its limits
SamplerLaw(s, v, i) ==
  CASE s.kind = "scalar" -> v = s.a
    [] s.kind = "range" ->
         LET m == i % s.steps IN
         IF s.steps = 1 THEN v = s.a
         ELSE Small(DSub(DMul(v, DInt(s.steps - 1)), DAdd(DMul(s.a, DInt(s.steps - 1 - m)), DMul(s.b, DInt(m)))),
                    DMul(Sum2(s.a, s.b), DInt(s.steps)), 44)
    [] s.kind = "uniform" -> DLe(s.a, v) /\ DLe(v, s.b)
    [] OTHER -> IsFin(v)
Applied(e, p) == e.which = 0 \/ e.which = p
Row(s, e) ==
  IF ~s.on THEN {"row_without_begin"} ELSE
  IF e.missing \/ Len(e.pv) # Len(s.nom_pert) \/ Len(e.ops) # Len(s.nom_ops) THEN {"row_shape"} ELSE
  LET exact == ~s.has_comp
      n == Len(s.rows) + 1 IN
  \* the row equals an independent evaluation of nominal + recorded perturbations + same compensation
  (IF SameOps(e.ops, e.re_ops, s.nom_ops, exact, 30) THEN {} ELSE {"row_true"}) \cup
  \* ... "followed by the same compensation": the compensation run afresh on a fresh copy (a fresh
  \* Tolerancing object) starting from the nominal compensator values, as every trial does
  (IF "re_comp" \in DOMAIN e /\ Len(e.re_comp) > 0 /\ ~SameOps(e.ops, e.re_comp, s.nom_ops, FALSE, 20)
   THEN {"row_compensated"} ELSE {}) \cup
  \* a perturbation equal to the nominal value reproduces the nominal operand values
  (IF (\A p \in 1..Len(e.pv) : Applied(e, p) => e.pv[p] = s.nom_pert[p])
        => SameOps(e.ops, s.nom_ops, s.nom_ops, exact, 20)
   THEN {} ELSE {"nominal_reproduced"}) \cup
  (IF \A p \in 1..Len(e.pv) : Applied(e, p) => SamplerLaw(s.samplers[p], e.pv[p], e.i)
   THEN {} ELSE {"sampler_law"}) \cup
  \* one at a time: the perturbations not being swept are recorded / left at nominal
  (IF \A p \in 1..Len(e.pv) : ~Applied(e, p) => e.pv[p] = s.nom_pert[p] THEN {} ELSE {"others_nominal"}) \cup
  \* same construction, same seed: the same row
  (IF s.session = 2 =>
        (n <= Len(s.rows1) /\ s.rows1[n].pv = e.pv /\ s.rows1[n].ops = e.ops /\ s.rows1[n].cv = e.cv)
   THEN {} ELSE {"reproducible"})
End(s, e) ==
  IF ~s.on THEN {"end_without_begin"} ELSE
  (IF Len(s.rows) = e.expected_rows THEN {} ELSE {"row_count"}) \cup
  (IF e.exc # "" THEN {"raises"} ELSE {}) \cup
  (IF NearProj(e.proj, s.proj, DAdd(DOne, s.zmax)) THEN {} ELSE {"end_state_nominal"})
Reset(s, e) ==
  IF ~s.on THEN {"reset_without_begin"} ELSE
  (IF e.exc # "" THEN {"raises"} ELSE {}) \cup
  (IF NearProj(e.proj, s.proj, DAdd(DOne, s.zmax)) THEN {} ELSE {"reset_restores"})

Judge(e) ==
  CASE e.op = "begin" -> Begin(e)
    [] e.op = "row" -> Row(st, e)
    [] e.op = "end" -> End(st, e)
    [] e.op = "reset" -> Reset(st, e)
    [] OTHER -> {"unknown_op"}

Init == l = 0 /\ st = Empty
Next == /\ l < Len(Trace)
        /\ LET e == Trace[l + 1] IN
             \* one short line per failing clause (TLC wraps long values):
             \* <<"V", id, count>> and <<"V", -(64 id + j), "clause">>
             /\ LET v == SetToSeq(Judge(e)) IN
                  /\ PrintT(<<"V", e.id, Len(v)>>)
                  /\ \A j \in 1..Len(v) : PrintT(<<"V", -(64 * e.id + j), v[j]>>)
             /\ st' = CASE e.op = "begin" ->
                             [on |-> TRUE, session |-> e.session, analysis |-> e.analysis, nom_ops |-> e.nom_ops,
                              nom_pert |-> e.nom_pert, proj |-> e.proj, zmax |-> e.zmax, has_comp |-> e.has_comp,
                              samplers |-> e.samplers, rows |-> <<>>,
                              rows1 |-> IF e.session = 2 THEN st.rows ELSE <<>>]
                        [] e.op = "row" -> [st EXCEPT !.rows = Append(@, [pv |-> e.pv, ops |-> e.ops, cv |-> e.cv])]
                        [] OTHER -> st
        /\ l' = l + 1
Spec == Init /\ [][Next]_vars
Done == TLCGet("stats").diameter - 1 = Len(Trace) /\ PrintT(<<"DONE", Len(Trace)>>)
=============================================================================
