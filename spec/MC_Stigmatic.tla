---------------------------- MODULE MC_Stigmatic ----------------------------
(* Design-level check of spec/Stigmatic.tla on an exact grid: are the        *)
(* closed-form conjugates the spec states really stigmatic?  Everything is   *)
(* an integer (Dyadic big integers, no rounding): eccentricities p/q from    *)
(* Pythagorean and index ratios, radii chosen so that the foci are integers, *)
(* surface points at rational sag.  For every case TLC checks                *)
(*  - the element built from the closed form is accepted by ElementOK, and   *)
(*    single-parameter perturbations (focus off by one unit, wrong conic,    *)
(*    foci swapped where that matters) are rejected;                         *)
(*  - Fermat: the optical path from the incoming wavefront / object point to *)
(*    the image point is the SAME for every surface point of the grid, using *)
(*    the exact distance to a focus, which for a conic is rational:          *)
(*       r^2 = 2 R z - (1 - e^2) z^2,                                        *)
(*       r^2 + (z - F)^2 = (e z + F)^2  for F = R/(1+e),                     *)
(*       r^2 + (z - F)^2 = (e z - F)^2  for F = R/(1-e)                      *)
(*    (for the paraboloid this is the focus-directrix property);             *)
(*  - with the WRONG focus (R/(1+e) for the refracting conic, R for the      *)
(*    paraboloid) the path is not constant - the identity discriminates.     *)
(* Aplanatic points: for Q on the sphere n1 |QO| = n2 |QI| (Apollonius), so  *)
(* the path n2 |QI| - n1 |QO| vanishes identically (O virtual, I real).      *)
EXTENDS Stigmatic, TLC, FiniteSets

\* p/q to 60 fractional bits (only for the conic constant, which is not an integer)
RECURSIVE FracBits(_, _, _)
FracBits(r, q, k) == IF k > 60 \/ r = 0 THEN DZero
                     ELSE IF 2 * r >= q THEN DAdd(DShift(DOne, -k), FracBits(2 * r - q, q, k + 1))
                     ELSE FracBits(2 * r, q, k + 1)
DQ(p, q) == LET ap == IF p < 0 THEN -p ELSE p
                v  == DAdd(DInt(ap \div q), FracBits(ap % q, q, 1))
            IN  IF p < 0 THEN DNeg(v) ELSE v

Ecc == { <<0, 1>>, <<3, 5>>, <<4, 5>>, <<5, 13>>, <<12, 13>>, <<8, 17>>, <<1, 1>>,
         <<5, 3>>, <<5, 4>>, <<13, 5>>, <<13, 12>>, <<17, 15>>,
         <<4, 3>>, <<3, 2>>, <<2, 1>>, <<3, 1>>, <<4, 1>>, <<3, 4>>, <<2, 3>>, <<1, 2>>, <<1, 3>>, <<1, 4>> }
Signs == {-1, 1}
Mults == {1, 3}
Sags  == {1, 2, 4, 6}            \* z = R j / 16
ConicCases == { [fam |-> "conic", p |-> e[1], q |-> e[2], s |-> s, m |-> m] : e \in Ecc, s \in Signs, m \in Mults }
AplCases == { [fam |-> "aplanatic", u |-> i[1], v |-> i[2], s |-> s, m |-> m] :
              i \in { <<1, 2>>, <<2, 3>>, <<3, 4>>, <<1, 3>>, <<1, 4>>, <<4, 3>>, <<3, 2>>, <<2, 1>> }, s \in Signs, m \in Mults }

I(n) == DInt(n)
DAbsI(a) == DAbs(a)
\* ---- conics ----------------------------------------------------------------------
\* R = 16 s m (q+p)(q-p)  (or 16 s m for the paraboloid / sphere), so that z = R j/16 and the foci are integers
RadiusOf(c) == IF c.p = c.q THEN 32 * c.s * c.m
               ELSE 16 * c.s * c.m * (c.q + c.p) * (c.q - c.p)
Fplus(c)  == 16 * c.s * c.m * (c.q - c.p) * c.q                 \* R/(1+e) = R q/(q+p), an integer by construction
Fminus(c) == 16 * c.s * c.m * (c.q + c.p) * c.q                 \* R/(1-e) = R q/(q-p)  (p # q)
Zs(c) == { IF c.p = c.q THEN 2 * c.s * c.m * j ELSE c.s * c.m * (c.q + c.p) * (c.q - c.p) * j : j \in Sags }   \* R j/16
\* q^2 r^2 at sag z
Nr2(c, z) == DAdd(DMul(I(c.q * c.q), DSub(DMul(I(2 * RadiusOf(c)), I(z)), DSq(I(z)))), DMul(I(c.p * c.p), DSq(I(z))))
\* q * (distance from the surface point to the axial point F), exactly, as claimed by the conic identity
QDist(c, z, F, s) == DAbs(DAdd(DMul(I(c.p), I(z)), DMul(I(s * c.q), I(F))))
DistIdentity(c, z, F, s) ==
  DAdd(Nr2(c, z), DMul(I(c.q * c.q), DSq(DSub(I(z), I(F))))) = DSq(DAdd(DMul(I(c.p), I(z)), DMul(I(s * c.q), I(F))))
OnRealSheet(c, z) == DSign(Nr2(c, z)) >= 0

MirrorEl(c, ain, aout, cin, cout) ==
  [ty |-> "conic_mirror", zv |-> DZero, R |-> I(RadiusOf(c)), kk |-> DQ(-(c.p * c.p), c.q * c.q),
   n1 |-> DOne, n2 |-> DOne, p |-> c.p, q |-> c.q, bin |-> Beam(cin, I(ain)), bout |-> Beam(cout, I(aout))]
RefrEl(c, aout) ==
  [ty |-> "conic_refr", zv |-> DZero, R |-> I(RadiusOf(c)), kk |-> DQ(-(c.p * c.p), c.q * c.q),
   n1 |-> I(c.p), n2 |-> I(c.q), p |-> c.p, q |-> c.q, bin |-> Beam(TRUE, DZero), bout |-> Beam(FALSE, I(aout))]

ConicOK(c) ==
  LET R == RadiusOf(c) IN
  /\ \A z \in Zs(c) : OnRealSheet(c, z)
  /\ IF c.p = c.q
     THEN \* paraboloid: focus R/2; light travels towards -sign(R) ... path = sigma z + |z + R/2|, sigma = -sign(R)
          LET F == 16 * c.s * c.m
              L(z, Foc) == DAdd(I(-c.s * z), DAbs(I(z + Foc))) IN
          /\ ElementOK(MirrorEl(c, 0, F, TRUE, FALSE)) /\ ElementOK(MirrorEl(c, F, 0, FALSE, TRUE))
          /\ ~ElementOK(MirrorEl(c, 0, F + 1, TRUE, FALSE)) /\ ~ElementOK(MirrorEl(c, 0, R, TRUE, FALSE))
          /\ ~ElementOK([MirrorEl(c, 0, F, TRUE, FALSE) EXCEPT !.kk = DQ(-1001, 1000)])
          /\ \A z \in Zs(c) : DistIdentity(c, z, F, 1)               \* r^2 + (z - R/2)^2 = (z + R/2)^2
          /\ \A z \in Zs(c) : L(z, F) = L(0, F)
          \* the centre of curvature is NOT a focus: the exact squared distance is no perfect square of that form
          /\ \E z \in Zs(c) : ~DistIdentity(c, z, R, 1)
     ELSE LET Fp == Fplus(c)
              Fm == Fminus(c)
              Dp(z) == QDist(c, z, Fp, 1)
              Dm(z) == QDist(c, z, Fm, -1) IN
          /\ \A z \in Zs(c) : DistIdentity(c, z, Fp, 1) /\ DistIdentity(c, z, Fm, -1)
          \* mirror: the two foci are conjugate, in either order; ellipse: sum, hyperbola: difference of distances
          /\ ElementOK(MirrorEl(c, Fp, Fm, FALSE, FALSE)) /\ ElementOK(MirrorEl(c, Fm, Fp, FALSE, FALSE))
          /\ ~ElementOK(MirrorEl(c, Fp, Fm + 1, FALSE, FALSE))
          /\ (c.p # 0 => ~ElementOK(MirrorEl(c, Fp, Fp, FALSE, FALSE)))
          /\ ~ElementOK([MirrorEl(c, Fp, Fm, FALSE, FALSE) EXCEPT !.kk = DAdd(@, DShift(DOne, -10))])
          /\ \A z \in Zs(c) : IF c.p < c.q THEN DAdd(Dp(z), Dm(z)) = DAdd(Dp(0), Dm(0))
                              ELSE DAbs(DSub(Dp(z), Dm(z))) = DAbs(DSub(Dp(0), Dm(0)))
          \* refracting conic, collimated in n1 = p, focus in n2 = q at R/(1-e):
          \*   (q/n2) L = p sigma z + q dist,   sigma = sign(F-) (the light travels towards the focus)
          /\ (c.p # 0 =>
                LET sg == IF Fm > 0 THEN 1 ELSE -1
                    L(z) == DAdd(I(c.p * sg * z), Dm(z))
                    \* the wrong claim "focus at R/(1+e)", with the light travelling towards THAT point
                    Lwrong(z) == DAdd(I(c.p * (IF Fp > 0 THEN 1 ELSE -1) * z), Dp(z)) IN
                /\ ElementOK(RefrEl(c, Fm))
                /\ ~ElementOK(RefrEl(c, Fp)) /\ ~ElementOK(RefrEl(c, Fm - 1))
                /\ ~ElementOK([RefrEl(c, Fm) EXCEPT !.n1 = I(c.q), !.n2 = I(c.p)])          \* indices exchanged
                /\ \A z \in Zs(c) : L(z) = L(0)
                /\ \E z \in Zs(c) : Lwrong(z) # Lwrong(0))

\* ---- aplanatic points of a sphere ---------------------------------------------------
Pyth == { <<3, 4, 5>>, <<4, 3, 5>>, <<5, 12, 13>>, <<12, 5, 13>>, <<-3, 4, 5>>, <<-4, 3, 5>>, <<7, 24, 25>>, <<0, 1, 1>> }  \* <<cos, sin, hyp>> numerators
AplOK(c) ==
  LET R == c.s * c.m * c.u * c.v             \* centre at 0, vertex at -R
      a == c.s * c.m * c.v * c.v             \* O = R n2/n1 with n1/n2 = u/v
      b == c.s * c.m * c.u * c.u             \* I = R n1/n2
      el(ain, aout) == [ty |-> "aplanatic", zv |-> I(-R), R |-> I(R), kk |-> DZero, n1 |-> I(c.u), n2 |-> I(c.v),
                        p |-> 0, q |-> 1, bin |-> Beam(FALSE, I(ain)), bout |-> Beam(FALSE, I(aout))]
      \* H^2 |Q - A|^2 for Q = R (C, S)/H and A on the axis
      D2(t, A) == DAdd(DSq(DSub(I(R * t[1]), I(A * t[3]))), DSq(I(R * t[2]))) IN
  /\ ElementOK(el(a, b))
  /\ ~ElementOK(el(b, a)) /\ ~ElementOK(el(a, b + 1)) /\ ~ElementOK(el(a + 1, b))
  /\ ~ElementOK([el(a, b) EXCEPT !.kk = DShift(DOne, -10)])
  \* vertex distances R (1 + n2/n1) and R (1 + n1/n2)
  /\ (a + R) * c.u = R * (c.u + c.v) /\ (b + R) * c.v = R * (c.u + c.v)
  /\ \A t \in Pyth : DMul(I(c.u * c.u), D2(t, a)) = DMul(I(c.v * c.v), D2(t, b))      \* n1 |QO| = n2 |QI|
  \* ... and not for a neighbouring image point
  /\ \E t \in Pyth : DMul(I(c.u * c.u), D2(t, a)) # DMul(I(c.v * c.v), D2(t, b + 1))

\* ---- the remaining elements and the result clauses ------------------------------------
PlaneEl(ty, cin, ain, cout, aout) ==
  [ty |-> ty, zv |-> I(7), R |-> Inf(1), kk |-> DZero, n1 |-> DOne, n2 |-> DOne, p |-> 0, q |-> 1,
   bin |-> Beam(cin, I(ain)), bout |-> Beam(cout, I(aout))]
MiscOK ==
  /\ ElementOK(PlaneEl("plane_mirror", TRUE, 0, TRUE, 0)) /\ ElementOK(PlaneEl("plane_mirror", FALSE, 3, FALSE, 11))
  /\ ~ElementOK(PlaneEl("plane_mirror", FALSE, 3, FALSE, 3)) /\ ~ElementOK(PlaneEl("plane_mirror", TRUE, 0, FALSE, 3))
  /\ ElementOK(PlaneEl("plane_refr", TRUE, 0, TRUE, 0)) /\ ~ElementOK(PlaneEl("plane_refr", FALSE, 3, FALSE, 3))
  /\ LET con(R, a) == [ty |-> "concentric", zv |-> I(5), R |-> I(R), kk |-> DZero, n1 |-> DOne, n2 |-> I(2), p |-> 0, q |-> 1,
                       bin |-> Beam(FALSE, I(a)), bout |-> Beam(FALSE, I(a))] IN
     ElementOK(con(20, 25)) /\ ElementOK(con(-20, -15)) /\ ~ElementOK(con(20, 26)) /\ ~ElementOK(con(-20, 25))
  \* result clauses: a perfect record is accepted, micro-deviations are rejected
  /\ LET rays == [kind |-> "rays", xs |-> <<DZero, DShift(DOne, -40)>>, ys |-> <<DZero, DZero>>, zs |-> <<I(100), I(100)>>,
                  os |-> <<I(300), I(299)>>, aheads |-> <<DZero, DOne>>, oc |-> I(300), zimg |-> I(100)] IN
     /\ JudgeRays(rays) = {}
     /\ JudgeRays([rays EXCEPT !.xs = <<DZero, DShift(DOne, -20)>>]) = {"image_point"}
     /\ JudgeRays([rays EXCEPT !.os = <<I(300), DAdd(I(299), DShift(DOne, -20))>>]) = {"equal_path"}
     /\ JudgeRays([rays EXCEPT !.aheads = <<DZero, DZero>>]) = {"equal_path"}
     /\ JudgeRays([rays EXCEPT !.xs = <<DZero, NaN>>]) = {"ray_missing"}
  /\ JudgeWave([opds |-> <<DZero, DShift(DOne, -21)>>, strehl |-> DSub(DOne, DShift(DOne, -13))]) = {}
  /\ JudgeWave([opds |-> <<DZero, DShift(DOne, -19)>>, strehl |-> DOne]) = {"wavefront_zero"}
  /\ JudgeWave([opds |-> <<DZero>>, strehl |-> DSub(DOne, DShift(DOne, -11))]) = {"strehl_one"}
  /\ JudgeWave([opds |-> <<NaN>>, strehl |-> NaN]) = {"wavefront_zero", "strehl_one"}
  \* chains: a Cassegrain (paraboloid R -32, hyperboloid e = 5/3) is a valid system; a broken link is not
  /\ LET par == [ty |-> "conic_mirror", zv |-> DZero, R |-> I(-32), kk |-> I(-1), n1 |-> DOne, n2 |-> DOne, p |-> 1, q |-> 1,
                 bin |-> Beam(TRUE, DZero), bout |-> Beam(FALSE, I(-16))]
         \* secondary at z = -10: F_own = -16 = zv + R/(1+e)  =>  R = -6 * 8/3 = -16;  F_other = zv + R/(1-e) = -10 + 24 = 14
         hyp == [ty |-> "conic_mirror", zv |-> I(-10), R |-> I(-16), kk |-> DQ(-25, 9), n1 |-> DOne, n2 |-> DOne, p |-> 5, q |-> 3,
                 bin |-> Beam(FALSE, I(-16)), bout |-> Beam(FALSE, I(14))]
         sys == [kind |-> "system", inf |-> TRUE, zobj |-> DZero, els |-> <<par, hyp>>, zimg |-> I(14)] IN
     /\ JudgeSystem(sys) = {}
     /\ JudgeSystem([sys EXCEPT !.zimg = I(15)]) = {"image_position"}
     /\ JudgeSystem([sys EXCEPT !.els = <<par, [hyp EXCEPT !.bin = Beam(FALSE, I(-17))]>>]) = {"element_relation", "chain"}
     /\ JudgeSystem([sys EXCEPT !.inf = FALSE]) = {"chain"}
     /\ JudgeSystem([sys EXCEPT !.els = <<[par EXCEPT !.kk = DQ(-1001, 1000)], hyp>>]) = {"element_relation"}
ASSUME MiscOK
ASSUME PrintT(<<"COUNTS", Cardinality(ConicCases), Cardinality(AplCases)>>)

--------------------------------------------------------------------------
Cases == ConicCases \cup AplCases
Key(c) == IF c.fam = "conic" THEN <<c.fam, c.p, c.q>> ELSE <<c.fam, c.u, c.v>>
Keys == {Key(c) : c \in Cases}
VARIABLE case
Init == case = [fam |-> "root"]
Next == \/ /\ case.fam = "root"
           /\ \E k \in Keys : case' = [fam |-> "bucket", key |-> k]
        \/ /\ case.fam = "bucket"
           /\ \E c \in Cases : Key(c) = case.key /\ case' = c
Spec == Init /\ [][Next]_case
ModelOK == CASE case.fam = "conic" -> ConicOK(case)
             [] case.fam = "aplanatic" -> AplOK(case)
             [] OTHER -> TRUE
=============================================================================
