---------------------------- MODULE Trace_Dyadic ----------------------------
(* Self-test of the numeric substrate: every event carries two floats and    *)
(* their exact sum, difference, product and comparison computed with Python  *)
(* fractions; the spec recomputes them with Dyadic and names disagreements.  *)
EXTENDS Dyadic, Json, IOUtils, TLC
Trace == JsonDeserialize(IOEnv.TRACE_FILE)
VARIABLE l
Failing(e) ==
  (IF DAdd(e.a, e.b) = e.sum THEN {} ELSE {"add"}) \cup
  (IF DSub(e.a, e.b) = e.diff THEN {} ELSE {"sub"}) \cup
  (IF DMul(e.a, e.b) = e.prod THEN {} ELSE {"mul"}) \cup
  (IF DCmp(e.a, e.b) = e.cmp THEN {} ELSE {"cmp"})
Init == l = 0
Next == /\ l < Len(Trace)
        /\ l' = l + 1
        /\ PrintT(<<"V", Trace[l + 1].id, Failing(Trace[l + 1])>>)
Spec == Init /\ [][Next]_l
Done == TLCGet("stats").diameter - 1 = Len(Trace) /\ PrintT(<<"DONE", Len(Trace)>>)
=============================================================================
