------------------------------ MODULE Wavefront ------------------------------
(* C09: the optical path difference reported for a pupil sample is           *)
(*                                                                            *)
(*      OPD [waves] * lambda = (chief-ray path) - (ray path),                 *)
(*                                                                            *)
(* both paths measured from a common wavefront in object space to the         *)
(* reference sphere, which is centred on the chief ray's image-surface        *)
(* intersection C and passes through the axial point X of the paraxial exit   *)
(* pupil.  Stated from that definition (Welford, Aberrations of Optical       *)
(* Systems, ch. 7), over exact dyadic numbers, as polynomial (in)equalities.  *)
(*                                                                            *)
(* One event e is one pupil sample:                                           *)
(*   C, dc, oc, pc0   chief ray (traced alone): image-surface point,          *)
(*                    direction there, accumulated optical path, launch point *)
(*   zi, xpl          z of the image-surface vertex; paraxial exit-pupil      *)
(*                    position relative to it          X = (0, 0, zi + xpl)   *)
(*   P, d, o          the sample's ray on the image surface (point, unit      *)
(*                    direction, accumulated optical path from its launch)    *)
(*   p0, d0           its launch point and object-space direction             *)
(*   t, tc            CERTIFICATES: distance to go *backwards* along the ray  *)
(*                    (chief ray) from the image surface to the sphere.  They *)
(*                    involve a square root, so they are logged and the spec  *)
(*                    verifies them (OnSphere, Root) instead of computing.    *)
(*   nimg, nobj       refractive index of image / object space at lam         *)
(*   lam              vacuum wavelength in micrometres (lengths are in mm)    *)
(*   inf              object at infinity (launch points lie on a plane that   *)
(*                    is oblique to the incoming plane wave)                  *)
(*   opd              the reported value, in waves                            *)
(*   chief            this sample is the pupil point (0, 0)                   *)
(*   full             FALSE: only OPD(chief) = 0 is judged (vignetted fields: *)
(*                    the property is silent on how samples map to rays)      *)
(*   fan = <<n, k, px, py>>  n > 0: sample k (0-based) of an n-point OPD fan   *)
(*   ztol             path uncertainty admitted by iteratively intersected      *)
(*                    surfaces (see ChiefZero); 0 for closed-form lenses         *)
(*   irep, iown       intensity reported with the OPD / recorded by the trace  *)
EXTENDS Vec, FiniteSets

CERTBITS == 44    \* certificate on the sphere: |q(t)| <= 2^-44 |dq/dt| L  (t is right to 2^-44 L)
OPDBITS  == 40    \* path identity: residual <= 2^-40 of the summed term magnitudes (+ 2 ztol)
UNITBITS == 40

XP(e) == <<DZero, DZero, DAdd(e.zi, e.xpl)>>
R2(e) == LET w == V3Sub(e.C, XP(e)) IN Dot(w, w)              \* squared radius |C - X|^2

\* the point reached from (P, d) after going back by t, relative to the centre
Back(e, P, d, t) == V3Sub(V3Sub(P, VScale(t, d)), e.C)
LenScale(e, P, t) == DAdd(DAdd(DAbs(t), Norm1(P)), DAdd(Norm1(e.C), DAbs(DAdd(e.zi, e.xpl))))

\* the point reached lies on the sphere:  | P - t d - C |^2 = | C - X |^2
\* (q(t) = a t^2 - 2 (u.d) t + u.u - R^2 with u = P - C;  dq/dt = -2 (P - t d - C).d)
OnSphere(e, P, d, t) ==
  LET w  == Back(e, P, d, t)
      q  == DSub(Dot(w, w), R2(e))
      dq == DTwo(Dot(w, d))
  IN  DLe(DAbs(q), DShift(DMul(DAbs(dq), LenScale(e, P, t)), -CERTBITS))

\* Which of the two intersections is meant: the wave converging on C is compared with
\* the sphere *before* it reaches the image surface, i.e. the first intersection met
\* going backwards along the ray.  When the image-surface point lies inside the sphere
\* (u.u < R^2, the product of the roots is negative) that is the unique root t > 0.
Inside(e, P) == LET u == V3Sub(P, e.C) IN DLt(Dot(u, u), R2(e))
Root(e, P, t) == Inside(e, P) => DSign(t) > 0
\* conditioning: the sample's image point must lie within half the radius of the centre
\* (otherwise the ray may graze the sphere and t is not determined to float precision)
WellInside(e, P) == LET u == V3Sub(P, e.C) IN
                    DSign(R2(e)) > 0 /\ DLe(DShift(Dot(u, u), 2), R2(e))

Unit(d) == Small(DSub(Dot(d, d), DOne), DOne, UNITBITS)

\* common object-space wavefront.  Finite object: all rays leave the object point
\* (p0 = pc0), the wavefront is that point.  Object at infinity: a plane wave of
\* direction d0; the wavefront through the chief ray's launch point pc0 is the plane
\* (x - pc0).d0 = 0, and a ray launched at p0 starts (p0 - pc0).d0 *ahead* of it.
Ahead(e, p0) == DMul(e.nobj, Dot(V3Sub(p0, e.pc0), e.d0))
ObjectWave(e) == IF e.inf THEN \A i \in 1..3 : Small(DSub(e.d0[i], e.d0c[i]), DOne, 36)
                 ELSE e.p0 = e.pc0

\* optical path from the common wavefront to the reference sphere
PathTo(e, o, t, p0, ni, no) ==
  DAdd(DSub(o, DMul(ni, t)), DMul(no, Dot(V3Sub(p0, e.pc0), e.d0)))
OpdResidual(e, ni, no) ==
  LET pc == PathTo(e, e.oc, e.tc, e.pc0, ni, no)
      pr == PathTo(e, e.o, e.t, e.p0, ni, no)
  IN  DSub(DMul(e.opd, e.lam), DMul(DInt(1000), DSub(pc, pr)))        \* lam in um, paths in mm
OpdScale(e) ==
  DMul(DInt(1000),
       DAdd(DAdd(DAdd(DAbs(e.oc), DAbs(e.o)), DMul(e.nimg, DAdd(DAbs(e.t), DAbs(e.tc)))),
            DAdd(DAbs(Ahead(e, e.p0)), DAdd(LenScale(e, e.P, e.t), DAbs(DMul(e.opd, e.lam))))))
\* slack: float noise of the summed terms, plus - for lenses with iteratively intersected surfaces -
\* the documented intersection tolerance of those surfaces for the chief ray and for the ray
\* (ztol, see ChiefZero; the two traces need not run the same number of iterations)
OpdValue(e, ni, no) ==
  /\ IsFin(e.opd)
  /\ DLe(DAbs(OpdResidual(e, ni, no)), DAdd(DShift(OpdScale(e), -OPDBITS), DMul(DInt(2000), e.ztol)))

\* documented sample of an n-point fan: coordinates linspace(-1, 1, n), first the
\* y fan (px = 0), then the x fan (py = 0)
FanCoord(n, k, p) == Small(DSub(DMul(DInt(n - 1), p), DInt(2 * k - (n - 1))), DInt(n - 1), 48)
FanSample(f) == LET n == f[1]
                    k == f[2] IN
                n = 0 \/ IF k < n THEN f[3] = DZero /\ FanCoord(n, k, f[4])
                         ELSE f[4] = DZero /\ FanCoord(n, k - n, f[3])

\* "exactly zero for the chief ray": the reference path is the same ray traced alone.  With only
\* closed-form surfaces the two traces perform the same arithmetic and the difference is exactly 0.
\* A surface intersected iteratively is located only to its documented tolerance tol (and the
\* iteration count of a batch is decided by its slowest ray), so each such surface may displace the
\* intersection by tol along the ray, i.e. change the path by at most (n + n') tol:
\*   ztol = sum over iteratively intersected surfaces of (n + n') tol   [mm]   (0 if there is none)
ChiefZero(e) == IF e.ztol = DZero THEN e.opd = DZero
                ELSE Small(DMul(e.opd, e.lam), DMul(DInt(1000), e.ztol), 0)
ChiefFin(e) == VFin(e.C) /\ VFin(e.dc) /\ IsFin(e.oc) /\ IsFin(e.tc) /\ VFin(e.pc0) /\ IsFin(e.xpl) /\ IsFin(e.zi)
RayFin(e) == VFin(e.P) /\ VFin(e.d) /\ IsFin(e.o) /\ IsFin(e.t) /\ VFin(e.p0) /\ VFin(e.d0)

JudgeSample(e) ==
  LET zero == IF e.chief /\ ~ChiefZero(e) THEN {"chief_zero"} ELSE {} IN
  IF ~e.full THEN zero
  ELSE IF ~ChiefFin(e) THEN {"~chief_not_finite"}
  ELSE IF ~RayFin(e) THEN {"~ray_not_finite"}
  ELSE IF ~(WellInside(e, e.P) /\ WellInside(e, e.C)) THEN zero \cup {"~image_point_near_sphere"}
  ELSE zero \cup
       (IF Unit(e.d) /\ Unit(e.dc) THEN {} ELSE {"unit"}) \cup
       (IF OnSphere(e, e.P, e.d, e.t) /\ OnSphere(e, e.C, e.dc, e.tc) THEN {} ELSE {"sphere_certificate"}) \cup
       (IF Root(e, e.P, e.t) /\ Root(e, e.C, e.tc) THEN {} ELSE {"root_certificate"}) \cup
       (IF ObjectWave(e) THEN {} ELSE {"object_wave"}) \cup
       (IF FanSample(e.fan) THEN {} ELSE {"fan_sample"}) \cup
       \* the intensity reported next to the OPD is the ray's intensity on the image surface
       (IF e.irep = e.iown THEN {} ELSE {"intensity"}) \cup
       (IF OpdValue(e, e.nimg, e.nobj) THEN {}
        ELSE {"opd_value"} \cup
             \* diagnosis only (a note, not a clause): which simplification would explain the value
             (IF OpdValue(e, DOne, e.nobj) THEN {"~explained:image_index_ignored"}
              ELSE IF OpdValue(e, e.nimg, DOne) THEN {"~explained:object_index_ignored"}
              ELSE IF OpdValue(e, DOne, DOne) THEN {"~explained:both_indices_ignored"} ELSE {}))

--------------------------------------------------------------------------
(* statistics of the reported values on a sample set                         *)
(*   rms:    documented as "root mean square of the OPD" - NOT relative to   *)
(*           the mean:  rms >= 0  and  rms^2 N = sum OPD_i^2                 *)
(*   opdiff: "mean OPD difference": with m = mean OPD and weights w_i,       *)
(*           val = mean | (OPD_i - m) w_i |,  i.e.                           *)
(*           N^2 val = sum_i | (N OPD_i - sum OPD) w_i |                     *)
RECURSIVE SumSq(_)
SumSq(s) == IF s = <<>> THEN DZero ELSE DAdd(DSq(s[1]), SumSq(Tail(s)))
AllFin(s) == \A i \in 1..Len(s) : IsFin(s[i])
JudgeRms(e) ==
  IF ~AllFin(e.opds) THEN {"~opd_not_finite"}
  ELSE LET n   == Len(e.opds)
           lhs == DMul(DSq(e.val), DInt(n))
           rhs == SumSq(e.opds)
       IN IF IsFin(e.val) /\ DSign(e.val) >= 0 /\ (lhs = rhs \/ Close(lhs, rhs, 40)) THEN {} ELSE {"rms"}
RECURSIVE SumAbs(_)
SumAbs(s) == IF s = <<>> THEN DZero ELSE DAdd(DAbs(s[1]), SumAbs(Tail(s)))
RECURSIVE AbsDev(_, _, _, _)
AbsDev(s, w, tot, n) == IF s = <<>> THEN DZero
                        ELSE DAdd(DAbs(DMul(DSub(DMul(DInt(n), s[1]), tot), w[1])),
                                  AbsDev(Tail(s), Tail(w), tot, n))
JudgeOpdiff(e) ==
  IF ~AllFin(e.opds) THEN {"~opd_not_finite"}
  ELSE LET n   == Len(e.opds)
           tot == DSumSeq(e.opds)
           lhs == DMul(DInt(n * n), e.val)
           rhs == AbsDev(e.opds, e.ws, tot, n)
           \* (N OPD_i - sum OPD) cancels: allow the float noise of the mean, 2^-40 of N sum |OPD_i|
           slack == DAdd(DShift(DAdd(DAbs(lhs), rhs), -36), DShift(DMul(DInt(n), SumAbs(e.opds)), -40))
       IN IF Len(e.ws) = n /\ IsFin(e.val) /\ DLe(DAbs(DSub(lhs, rhs)), slack) THEN {} ELSE {"opd_difference"}

\* The documented pupil samples of a view: hexapolar with n rings has 1 + 3 n (n + 1) points,
\* a uniform n x n grid keeps the points with x_i^2 + y_j^2 <= 1 (x_i = -1 + 2 (i-1)/(n-1)),
\* a random sampling has n points.  e.n is the ray count the caller asked for, e.npts the number
\* of pupil points the view actually used.
UniformCount(n) == IF n = 1 THEN 1
                   ELSE Cardinality({<<i, j>> \in (1..n) \X (1..n) :
                                       (2*i - n - 1) * (2*i - n - 1) + (2*j - n - 1) * (2*j - n - 1) <= (n - 1) * (n - 1)})
JudgeCount(e) ==
  LET want == CASE e.dist = "hexapolar" -> 1 + 3 * e.n * (e.n + 1)
                [] e.dist = "uniform" -> UniformCount(e.n)
                [] OTHER -> e.n
  IN IF e.npts = want THEN {} ELSE {"documented_samples"}
\* The OPD map is the sampled quantity: at a grid node that coincides with a documented pupil
\* sample the map value is that sample's OPD (times its intensity, as the map is built), whatever
\* interpolation fills the nodes in between.  e.zs: map values at such nodes, e.os: the samples.
JudgeMap(e) ==
  IF Len(e.zs) # Len(e.os) \/ ~AllFin(e.zs) \/ ~AllFin(e.os) THEN {"map_value"}
  ELSE LET slack == DShift(DAdd(DOne, SumAbs(e.os)), -30) IN
       IF \A k \in 1..Len(e.zs) : DLe(DAbs(DSub(e.zs[k], e.os[k])), slack) THEN {} ELSE {"map_value"}
Judge(e) == CASE e.kind = "count" -> JudgeCount(e)
              [] e.kind = "map" -> JudgeMap(e)
              [] e.kind = "ray" -> JudgeSample(e)
              [] e.kind = "rms" -> JudgeRms(e)
              [] e.kind = "opdiff" -> JudgeOpdiff(e)
              [] OTHER -> {"unknown_event_kind"}
=============================================================================
