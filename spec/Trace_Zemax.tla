---------------------------- MODULE Trace_Zemax ----------------------------
(* Trace validation for C20: one event per load_zemax_file call on the real   *)
(* code.  The event carries the tokenised text of the file (numbers as the    *)
(* exact dyadic values of the decimal literals), the catalogue facts about    *)
(* the glass names it uses, and the projection of the lens that came back.    *)
(* The reader of ZemaxReader.tla - the same text the abstract machine         *)
(* Zemax.tla is built on - consumes the lines; the laws of `Finish` are then  *)
(* evaluated relationally on the implementation's own numbers:                *)
(*    R * c = 1 (to 2^-50), plane for c = 0;  z2 = 0, z1 = -t1,               *)
(*    z[j+1] = z[j] + t[j] (one rounding);  conic, PARM n -> coefficient of   *)
(*    r^(2n), media, stop, aperture, fields (as a set), wavelengths, primary  *)
(*    exactly as written.                                                     *)
(* Verdicts are total: every event gets the set of failing clauses, each      *)
(* tagged with the surface it concerns (0 = header), as the integer           *)
(* 100 * clause + surface (TLC wraps long printed values, so the verdict is   *)
(* kept short: the eight smallest codes, and 9999 if there were more):        *)
(*  1 radius 2 conic 3 coef 4 stop 5 medium 6 n_values 7 medium_chain         *)
(*  8 vertex 10 aperture 11 field_type 12 fields 13 wavelengths 14 primary    *)
(*  15 stop_index 20 accepts_nsc 21 raises 22 count                           *)
EXTENDS Dyadic, Json, IOUtils, TLC, FiniteSets
INSTANCE ZemaxReader WITH Zero <- DZero
Trace == JsonDeserialize(IOEnv.TRACE_FILE)
VARIABLE l
PInf == Inf(1)
C(clause, j) == 100 * clause + j

IsZero(a) == IsFin(a) /\ a.s = 0
\* the catalogue glass of this name (facts logged with the event: <<catalogue, name>> pairs)
Vendors(cat, name) == {cat[i][1] : i \in {q \in 1..Len(cat) : cat[q][2] = name}}
RECURSIVE FirstListed(_, _, _)
FirstListed(cat, gc, name) == IF gc = <<>> THEN ""
                              ELSE IF gc[1] \in Vendors(cat, name) THEN gc[1] ELSE FirstListed(cat, Tail(gc), name)
MediumOK(cat, gc, b, m) ==
  IF b.glass = <<>> THEN m.kind = "air"
  ELSE LET gl == b.glass[1]
           v == FirstListed(cat, gc, gl.name) IN
       IF v # "" THEN m.kind = "cat" /\ m.name = gl.name /\ m.vendor = v
       ELSE IF Vendors(cat, gl.name) # {} THEN m.kind = "cat" /\ m.name = gl.name /\ m.vendor \in Vendors(cat, gl.name)
       ELSE m.kind = "model" /\ m.nd = gl.nd /\ m.vd = gl.vd
RadiusOK(R, c) == IF IsZero(c) THEN R = PInf ELSE IsFin(R) /\ Close(DMul(R, c), DOne, 50)
Flat(R) == ~IsFin(R)
\* trailing zero coefficients do not change the surface
CoefOK(b, cf) == \A n \in 1..8 :
                   LET want == IF b.type = "EVENASPH" THEN b.parm[n] ELSE DZero
                       got == IF n <= Len(cf) THEN cf[n] ELSE DZero IN
                   got = want
SurfaceClauses(e, r, bs, j) ==
  LET b == bs[j]
      s == e.post.surf[j]
      N == Len(bs) IN
  (IF RadiusOK(s.R, b.c) THEN {} ELSE {C(1, j)}) \cup
  (IF Flat(s.R) \/ s.k = b.k THEN {} ELSE {C(2, j)}) \cup
  (IF CoefOK(b, s.coef) /\ Len(s.coef) <= 8 THEN {} ELSE {C(3, j)}) \cup
  (IF s.stop = b.stop THEN {} ELSE {C(4, j)}) \cup
  (IF MediumOK(e.cat, r.gcat, b, s.med) THEN {} ELSE {C(5, j)}) \cup
  (IF e.ref[j] = <<>> \/ s.npost = e.ref[j] THEN {} ELSE {C(6, j)}) \cup
  (IF j = 1 \/ s.npre = e.post.surf[j-1].npost THEN {} ELSE {C(7, j)}) \cup
  (IF N = 1 THEN {}
   ELSE IF j = 1 THEN (IF s.z = DNeg(b.t) THEN {} ELSE {C(8, 1)})
   ELSE IF j = 2 THEN (IF IsZero(s.z) THEN {} ELSE {C(8, 2)})
   ELSE (IF Agree(s.z, DAdd(e.post.surf[j-1].z, bs[j-1].t), 51) THEN {} ELSE {C(8, j)}))
FieldSet(xs, ys) == {<<xs[i], ys[i]>> : i \in 1..(IF Len(xs) < Len(ys) THEN Len(xs) ELSE Len(ys))}
HeaderClauses(e, r, bs) ==
  LET p == e.post
      want == IF \E j \in 1..Len(bs) : bs[j].stop
              THEN CHOOSE j \in 1..Len(bs) : bs[j].stop /\ \A i \in 1..(j-1) : ~bs[i].stop ELSE 0 IN
  (IF p.ap = r.ap THEN {} ELSE {C(10, 0)}) \cup
  (IF p.ftype = (IF r.ftype = 0 THEN "angle" ELSE IF r.ftype = 1 THEN "object_height" ELSE "unsupported")
   THEN {} ELSE {C(11, 0)}) \cup
  (IF {<<p.fields[i][1], p.fields[i][2]>> : i \in 1..Len(p.fields)} = FieldSet(r.xs, r.ys)
      /\ Len(p.fields) = Cardinality(FieldSet(r.xs, r.ys)) THEN {} ELSE {C(12, 0)}) \cup
  (IF p.wl = r.wl /\ Len(r.wl) = r.nw THEN {} ELSE {C(13, 0)}) \cup
  (IF p.primary = r.pw /\ r.pw \in 1..Len(r.wl) THEN {} ELSE {C(14, 0)}) \cup
  (IF p.stop = want THEN {} ELSE {C(15, want)})
Judge(e) ==
  LET r == ReadAll(RdInit, e.lines)
      bs == r.blocks \o r.cur IN
  IF r.mode # "SEQ" THEN (IF e.exc = "" THEN {C(20, 0)} ELSE {})
  ELSE IF e.exc # "" THEN {C(21, 0)}
  ELSE IF Len(e.post.surf) # Len(bs) THEN {C(22, 0)}
  ELSE UNION {SurfaceClauses(e, r, bs, j) : j \in 1..Len(bs)} \cup HeaderClauses(e, r, bs)

RECURSIVE SmallestK(_, _)
SmallestK(S, k) == IF S = {} \/ k = 0 THEN {}
                   ELSE LET m == CHOOSE x \in S : \A y \in S : x <= y IN {m} \cup SmallestK(S \ {m}, k - 1)
Verdict(e) == LET S == Judge(e) IN IF Cardinality(S) <= 8 THEN S ELSE SmallestK(S, 8) \cup {9999}

Init == l = 0
Next == /\ l < Len(Trace)
        /\ LET e == Trace[l + 1] IN PrintT(<<"V", e.id, Verdict(e)>>)
        /\ l' = l + 1
Spec == Init /\ [][Next]_l
Done == TLCGet("stats").diameter - 1 = Len(Trace) /\ PrintT(<<"DONE", Len(Trace)>>)
=============================================================================
