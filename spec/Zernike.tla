------------------------------ MODULE Zernike ------------------------------
(* The three Zernike families (C10), stated from the published rules:        *)
(*   OSA/ANSI  j = (n(n+2)+m)/2, j = 0, 1, ...      (Thibos et al. 2002)      *)
(*   Noll      j = n(n+1)/2 + |m| + delta, j = 1, ...; also as Noll's own      *)
(*             ordering rule (by n, then |m|; even j <-> cosine term)         *)
(*   Fringe    j = (1 + (n+|m|)/2)^2 - 2|m| + [m<0], j = 1, ...               *)
(*   radial polynomial  R_n^|m|(r) = sum_k (-1)^k (n-k)! /                    *)
(*             (k! ((n+|m|)/2-k)! ((n-|m|)/2-k)!) r^(n-2k)                    *)
(*   Z_n^m = N R_n^|m|(r) cos(m phi)  (m >= 0),  N R_n^|m|(r) sin(|m| phi)     *)
(*             (m < 0);  N^2 = 2(n+1)/(1+[m=0]) (OSA, Noll), N = 1 (Fringe)   *)
(* Index rules and coefficients live on native integers; integrals and the   *)
(* evaluation at float64 points use the exact integers/dyadics of Dyadic.    *)
(* With x = r cos phi, y = r sin phi the polynomial is                        *)
(*   Z_n^m(x, y) = N Q(x^2+y^2) Re|Im (x + i y)^|m|,   R(r) = r^|m| Q(r^2)     *)
(* so no transcendental function is needed; N enters as a square-root         *)
(* certificate validated by N^2.                                              *)
EXTENDS Dyadic, FiniteSets, TLC

Families == {"standard", "noll", "fringe"}
NTERMS == 120
NMAX == 20                      \* pool of candidate orders (see PoolComplete in MC_Zernike)
ZAbs(m) == IF m < 0 THEN -m ELSE m
ValidUpTo(nmax) == {p \in (0..nmax) \X (-nmax..nmax) : ZAbs(p[2]) <= p[1] /\ (p[1] + p[2]) % 2 = 0}
Valid == {p : p \in ValidUpTo(NMAX)}              \* (set-map: TLC keeps it as an explicit set)

--------------------------------------------------------------------------
(* index rules                                                              *)
JStd(n, m) == (n * (n + 2) + m) \div 2
NollDelta(n, m) == IF (m > 0 /\ n % 4 \in {0, 1}) \/ (m < 0 /\ n % 4 \in {2, 3}) THEN 0 ELSE 1
JNoll(n, m) == (n * (n + 1)) \div 2 + ZAbs(m) + NollDelta(n, m)
JFringe(n, m) == LET s == 1 + (n + ZAbs(m)) \div 2 IN s * s - 2 * ZAbs(m) + (IF m < 0 THEN 1 ELSE 0)
J(f, p) == CASE f = "standard" -> JStd(p[1], p[2])
             [] f = "noll" -> JNoll(p[1], p[2])
             [] f = "fringe" -> JFringe(p[1], p[2])
First(f) == IF f = "standard" THEN 0 ELSE 1          \* number of the first term
Candidates(f, i) == {p \in Valid : J(f, p) = First(f) + i - 1}
RECURSIVE IdxFrom(_, _, _)
IdxFrom(f, i, N) == IF i > N THEN <<>> ELSE <<CHOOSE p \in Candidates(f, i) : TRUE>> \o IdxFrom(f, i + 1, N)
Indices(f, N) == IdxFrom(f, 1, N)                    \* the first N pairs <<n, m>> in order
IdxStd == Indices("standard", NTERMS)
IdxNoll == Indices("noll", NTERMS)
IdxFringe == Indices("fringe", NTERMS)
Idx(f) == CASE f = "standard" -> IdxStd [] f = "noll" -> IdxNoll [] f = "fringe" -> IdxFringe

\* Noll's ordering rule (Noll 1976): by n, within n by |m|; the two terms of one |m| > 0
\* take consecutive numbers, the even number going to the cosine term (m > 0)
RECURSIVE NollBuild(_, _, _, _)
NollBuild(n, ma, seq, nmax) ==
  IF n > nmax THEN seq
  ELSE IF ma > n THEN NollBuild(n + 1, (n + 1) % 2, seq, nmax)
  ELSE IF ma = 0 THEN NollBuild(n, 2, Append(seq, <<n, 0>>), nmax)
  ELSE LET j == Len(seq) + 1 IN
       NollBuild(n, ma + 2, IF j % 2 = 0 THEN seq \o << <<n, ma>>, <<n, -ma>> >>
                                         ELSE seq \o << <<n, -ma>>, <<n, ma>> >>, nmax)
NollByRule == NollBuild(0, 0, <<>>, 14)

--------------------------------------------------------------------------
(* radial polynomial: integer coefficients                                  *)
RECURSIVE Binom(_, _)
Binom(a, b) == IF b < 0 \/ b > a THEN 0 ELSE IF b = 0 THEN 1 ELSE (Binom(a, b - 1) * (a - b + 1)) \div b
\* coefficient of r^(n-2k):  (n-k)!/(k! a! b!) = C(n-k, k) C(n-2k, b),  a = (n+|m|)/2-k, b = (n-|m|)/2-k
RCoef(n, ma, k) == (IF k % 2 = 0 THEN 1 ELSE -1) * Binom(n - k, k) * Binom(n - 2 * k, (n - ma) \div 2 - k)
RECURSIVE RSeqFrom(_, _, _)
RSeqFrom(n, ma, k) == IF k > (n - ma) \div 2 THEN <<>> ELSE <<RCoef(n, ma, k)>> \o RSeqFrom(n, ma, k + 1)
RSeq(n, ma) == RSeqFrom(n, ma, 0)                    \* descending powers n, n-2, ..., |m|
RECURSIVE SumSeq(_)
SumSeq(s) == IF s = <<>> THEN 0 ELSE s[1] + SumSeq(Tail(s))
RECURSIVE SumAbsSeq(_)
SumAbsSeq(s) == IF s = <<>> THEN 0 ELSE ZAbs(s[1]) + SumAbsSeq(Tail(s))
REdge(n, ma) == SumSeq(RSeq(n, ma))                  \* R(1)
RAbs1(n, ma) == SumAbsSeq(RSeq(n, ma))               \* sum |coefficients|: rounding scale for r <= 1
\* the factorial formula itself, on exact integers:  c k! a! b! = (n-k)!
RECURSIVE FactSeq(_, _)                               \* <<0!, 1!, ..., K!>>
FactSeq(K, acc) == IF Len(acc) > K THEN acc ELSE FactSeq(K, Append(acc, DMul(DInt(Len(acc)), acc[Len(acc)])))
FactTab == FactSeq(NMAX + 1, <<DOne>>)
DFact(n) == FactTab[n + 1]
FactorialFormula(n, ma) ==
  \A k \in 0..((n - ma) \div 2) :
     DMul(DMul(DInt(ZAbs(RCoef(n, ma, k))), DFact(k)),
          DMul(DFact((n + ma) \div 2 - k), DFact((n - ma) \div 2 - k))) = DFact(n - k)
     /\ (RCoef(n, ma, k) > 0 <=> k % 2 = 0)

\* normalisation: N^2 as an integer
Norm2(f, n, m) == IF f = "fringe" THEN 1 ELSE IF m = 0 THEN n + 1 ELSE 2 * n + 2

--------------------------------------------------------------------------
(* exact radial integrals:  int_0^1 r^a r^b r dr = 1/(a+b+2), all fractions   *)
(* brought to the common denominator L = lcm(1..40)                          *)
LPrimes == << <<2, 5>>, <<3, 3>>, <<5, 2>>, <<7, 1>>, <<11, 1>>, <<13, 1>>, <<17, 1>>, <<19, 1>>,
              <<23, 1>>, <<29, 1>>, <<31, 1>>, <<37, 1>> >>
RECURSIVE Vp(_, _)
Vp(d, p) == IF d % p = 0 THEN 1 + Vp(d \div p, p) ELSE 0
RECURSIVE DIntPow(_, _)
DIntPow(p, e) == IF e = 0 THEN DOne ELSE DMul(DInt(p), DIntPow(p, e - 1))
RECURSIVE LOverFrom(_, _)
LOverFrom(d, i) == IF i > Len(LPrimes) THEN DOne
                   ELSE DMul(DIntPow(LPrimes[i][1], LPrimes[i][2] - Vp(d, LPrimes[i][1])), LOverFrom(d, i + 1))
RECURSIVE LTabFrom(_)
LTabFrom(d) == IF d > 40 THEN <<>> ELSE <<LOverFrom(d, 1)>> \o LTabFrom(d + 1)
LTab == LTabFrom(1)
LOver(d) == LTab[d]                                  \* L / d for d in 1..40
LFull == LOver(1)
\* L * int_0^1 R_n1^ma R_n2^ma r dr
RECURSIVE RadInnerRow(_, _, _, _, _, _)
RadInnerRow(c1, c2, n1, n2, k1, k2) ==
  IF k2 > Len(c2) THEN DZero
  ELSE DAdd(DMul(DMul(DInt(c1[k1]), DInt(c2[k2])), LOver(n1 - 2 * (k1 - 1) + n2 - 2 * (k2 - 1) + 2)),
            RadInnerRow(c1, c2, n1, n2, k1, k2 + 1))
RECURSIVE RadInnerFrom(_, _, _, _, _)
RadInnerFrom(c1, c2, n1, n2, k1) ==
  IF k1 > Len(c1) THEN DZero
  ELSE DAdd(RadInnerRow(c1, c2, n1, n2, k1, 1), RadInnerFrom(c1, c2, n1, n2, k1 + 1))
RadInner(n1, n2, ma) == RadInnerFrom(RSeq(n1, ma), RSeq(n2, ma), n1, n2, 1)
\* azimuthal integrals in units of pi (elementary):  int_0^2pi T_m T_m' dphi, T_m = cos(m phi) for
\* m >= 0 and sin(|m| phi) for m < 0
AzInner(m1, m2) == IF m1 # m2 THEN 0 ELSE IF m1 = 0 THEN 2 ELSE 1
\* L * N_p N_q * (1/pi) * int int Z_p Z_q r dr dphi  for p = q, and orthogonality for p # q.
\* (N_p N_q is only needed for p = q, where it is the integer N^2.)
Orthonormal(f, p, q) ==
  IF AzInner(p[2], q[2]) = 0 THEN TRUE                          \* inner product 0
  ELSE LET ri == RadInner(p[1], q[1], ZAbs(p[2])) IN
       IF p # q THEN ri = DZero
       ELSE IF f = "fringe" THEN DMul(DInt(2 * p[1] + 2), ri) = LFull    \* |Z|^2 = (1+[m=0])/(2n+2)
       ELSE DMul(DInt(Norm2(f, p[1], p[2]) * AzInner(p[2], p[2])), ri) = LFull

--------------------------------------------------------------------------
(* evaluation at a point (x, y) of the unit disk, Dyadic numbers             *)
CMul(a, b) == <<DTrunc(DSub(TMul(a[1], b[1]), TMul(a[2], b[2]))),
                DTrunc(DAdd(TMul(a[1], b[2]), TMul(a[2], b[1])))>>
RECURSIVE CPowSeq(_, _, _)                            \* <<z^0, ..., z^K>>
CPowSeq(z, K, acc) == IF Len(acc) > K THEN acc ELSE CPowSeq(z, K, Append(acc, CMul(acc[Len(acc)], z)))
RECURSIVE DPowSeq(_, _, _)                            \* <<t^0, ..., t^K>>
DPowSeq(t, K, acc) == IF Len(acc) > K THEN acc ELSE DPowSeq(t, K, Append(acc, TMul(acc[Len(acc)], t)))
\* everything about one point that the terms share
Point(x, y, maxm, maxq) == [cp |-> CPowSeq(<<x, y>>, maxm, << <<DOne, DZero>> >>),
                            tp |-> DPowSeq(DAdd(DSq(x), DSq(y)), maxq, <<DOne>>)]
InDisk(x, y) == DLe(DAdd(DSq(x), DSq(y)), DAdd(DOne, DShift(DOne, -48)))
\* TLC evaluation notes.  (1) Every operator call conses its parameters onto the caller's context and
\* TLC walks that list for each identifier, so deep recursions around Dyadic arithmetic are slow:
\* sequences are built with function constructors and sums with FoldFunction instead.
\* (2) f \o <<>> turns a function constructor (lazy in TLC) into an explicit tuple, computed once.
Seqify(f) == f \o <<>>
DSumF(f) == FoldFunction(LAMBDA v, acc : DAdd(v, acc), DZero, f)
DSumT(f) == FoldFunction(LAMBDA v, acc : DTrunc(DAdd(DTrunc(v), acc)), DZero, f)    \* each step within 2^-112
DMaxAbsF(f) == FoldFunction(LAMBDA v, acc : DMax(DAbs(v), acc), DZero, f)
\* Q(t) = sum_k c_k t^(q-k), q = (n-|m|)/2;  cs = RSeq(n, |m|), tp = <<t^0, t^1, ...>>
QSum(cs, q, tp) == DSumF([k \in 1..Len(cs) |-> DMul(DInt(cs[k]), tp[q - k + 2])])
QAbsSum(cs, q, tp) == DSumF([k \in 1..Len(cs) |-> DMul(DInt(ZAbs(cs[k])), tp[q - k + 2])])
QAt(n, ma, tp) == QSum(RSeq(n, ma), (n - ma) \div 2, tp)
\* r^|m| cos(m phi) (m >= 0),  r^|m| sin(|m| phi) (m < 0)
AngAt(m, cp) == IF m >= 0 THEN cp[m + 1][1] ELSE cp[-m + 1][2]
\* the polynomial without its normalisation constant
TermAt(n, m, P) == TMul(QAt(n, ZAbs(m), P.tp), AngAt(m, P.cp))
\* square-root certificates: sqt[k] is claimed to be sqrt(k)
SqtOK(sqt) == \A k \in 1..Len(sqt) : /\ IsFin(sqt[k]) /\ DSign(sqt[k]) = 1
                                     /\ Small(DSub(DSq(sqt[k]), DInt(k)), DInt(k), 50)
NormOf(f, n, m, sqt) == IF f = "fringe" THEN DOne ELSE sqt[Norm2(f, n, m)]
RECURSIVE MaxAbsM(_, _)
MaxAbsM(idx, N) == IF N = 0 THEN 0 ELSE LET a == ZAbs(idx[N][2])
                                            b == MaxAbsM(idx, N - 1) IN IF a > b THEN a ELSE b
RECURSIVE MaxQ(_, _)
MaxQ(idx, N) == IF N = 0 THEN 0 ELSE LET a == (idx[N][1] - ZAbs(idx[N][2])) \div 2
                                         b == MaxQ(idx, N - 1) IN IF a > b THEN a ELSE b
\* <<Z_1(x,y), ..., Z_N(x,y)>> of family f
Basis(f, N, x, y, sqt) ==
  LET idx == Idx(f)
      P == Point(x, y, MaxAbsM(idx, N), MaxQ(idx, N))
  IN Seqify([i \in 1..N |-> TMul(NormOf(f, idx[i][1], idx[i][2], sqt), TermAt(idx[i][1], idx[i][2], P))])
\* sum_i c_i B_i over the cosine terms (which = 1), the sine terms (which = -1) or all (which = 0)
DotSel(c, bs, idx, N, which) ==
  DSumT([i \in 1..N |-> IF which = 0 \/ (which = 1 /\ idx[i][2] >= 0) \/ (which = -1 /\ idx[i][2] < 0)
                        THEN DMul(c[i], bs[i]) ELSE DZero])
\* Eval(c, x, y) = sum_i c_i Z_i(x, y):  linear in c by construction
Eval(f, c, x, y, sqt) == DotSel(c, Basis(f, Len(c), x, y, sqt), Idx(f), Len(c), 0)
\* rounding scale of a float64 evaluation of sum c_i Z_i inside the unit disk
AbsScale(f, c, idx, N, sqt) ==
  DSumF([i \in 1..N |-> DMul(DAbs(c[i]), DMul(NormOf(f, idx[i][1], idx[i][2], sqt),
                                             DInt(RAbs1(idx[i][1], ZAbs(idx[i][2])))))])
MaxAbsSeq(s) == DMaxAbsF(s)
\* radial polynomial at r (for _radial_term):  r^|m| Q(r^2), and its rounding scale sum |c_k| r^(n-2k)
RECURSIVE DPowT(_, _)
DPowT(x, n) == IF n = 0 THEN DOne ELSE TMul(x, DPowT(x, n - 1))
RadialAt(n, ma, r) == LET q == (n - ma) \div 2 IN
                      TMul(DPowT(r, ma), QAt(n, ma, DPowSeq(DSq(r), q, <<DOne>>)))
RadialAbsAt(n, ma, r) == LET q == (n - ma) \div 2 IN
                         TMul(DPowT(DAbs(r), ma), QAbsSum(RSeq(n, ma), q, DPowSeq(DSq(r), q, <<DOne>>)))
=============================================================================
