----------------------------- MODULE Tolerancing -----------------------------
(* The tolerancing loops of optiland (C15) as a protocol: SensitivityAnalysis  *)
(* (one perturbation at a time, each swept over its range) and MonteCarlo      *)
(* (all perturbations at once, N trials).  The lens is reduced to the          *)
(* quantities the loops touch: two perturbed variables p1, p2 and one          *)
(* compensator variable c.  Samplers: "scalar" (a constant), "range" (a list   *)
(* with a cycling index that survives across runs), "dist" (the next value of  *)
(* a seeded random stream - the environment chooses the stream once, the same  *)
(* seed gives the same stream).  Compensation is an optimiser run (C14): a     *)
(* deterministic function of the perturbed lens chosen by the environment.     *)
(* Evaluation may be undefined ("ray failure"): the environment chooses the    *)
(* set of lens states where it is.                                             *)
(*                                                                            *)
(* One trial:  Reset ; Apply (one / all) ; Compensate ; Evaluate+Record.       *)
(* EndRun: the final reset (FinalReset = FALSE: omitted - negative variant).   *)
(* A behaviour is two sessions built the same way with the same seed; the      *)
(* rows of the second must equal the rows of the first.                        *)
(*                                                                            *)
(* Variable handles: every perturbation and the compensator hold the value     *)
(* their variable had when the handle was made (Variable.initial_value, here   *)
(* initv); reset() writes those back.  Nothing in the protocol re-bases them   *)
(* (CompRebases = TRUE is the negative variant in which the compensation       *)
(* records its starting point as the value to return to).  After a run the     *)
(* user may go on with the same object (phase "whatif", at most MaxUser steps):*)
(* Perturbation.apply(), apply_compensators(), in any order, then reset().     *)
EXTENDS Integers, Sequences, FiniteSets, TLC
CONSTANTS Values,       \* sample values of a variable
          Nom,          \* nominal lens [p1, p2, c]
          Shape,        \* "sens" | "mc"
          KindSets,     \* admissible sampler kinds per perturbation: set of [p1, p2] records
          RangeVals,    \* the values of a range sampler (a sequence)
          ScalarVal,    \* the value of a scalar sampler
          NTrials,      \* Monte-Carlo trials
          Streams,      \* admissible random streams (sequences of Values)
          WithComp,     \* BOOLEAN: a compensator variable is present
          CompFns,      \* admissible compensations: set of [[p1, p2] -> Values]
          FailSets,     \* admissible sets of lens states with undefined operands
          TrialReset,   \* BOOLEAN: reset before every trial
          FinalReset,   \* BOOLEAN: reset when the run completes
          CompRebases,  \* BOOLEAN: a compensation re-bases the compensator's initial value (negative variant)
          MaxUser,      \* user what-if steps allowed after a run (0: none)
          CompSkips     \* BOOLEAN: after its first run the compensator does nothing (stale-state negative variant)
Perts == <<"p1", "p2">>
NaN == -1                 \* the undefined operand value (operand values are >= 0)
VARIABLES lens, kinds, stream, compf, fail,      \* the lens; the environment's choices (fixed)
          idx, pos,                              \* sampler state: range index per perturbation, stream position
          pval,                                  \* Perturbation.value per perturbation
          phase, k, it,                          \* loop control: perturbation (sens), trial
          rows, session, rows1,
          initv, usteps,                         \* Variable.initial_value per handle; user steps taken
          didcomp                                \* the compensator of this session has run before
vars == <<lens, kinds, stream, compf, fail, idx, pos, pval, phase, k, it, rows, session, rows1, initv, usteps, didcomp>>
HasComp == WithComp
\* the operand: injective on the grid, undefined on the failure set
Eval(l) == IF l \in fail THEN NaN ELSE l.p1 + 3 * l.p2 + 9 * l.c
PertOf(l) == [p1 |-> l.p1, p2 |-> l.p2]
NomPert == PertOf(Nom)
Init == /\ lens = Nom /\ kinds \in KindSets /\ stream \in Streams /\ fail \in FailSets
        /\ compf \in CompFns
        /\ idx = [p \in {"p1", "p2"} |-> 0] /\ pos = 0 /\ pval = NomPert
        /\ phase = "reset" /\ k = 1 /\ it = 1 /\ rows = <<>> /\ session = 1 /\ rows1 = <<>>
        /\ initv = Nom /\ usteps = 0 /\ didcomp = FALSE
Env == <<kinds, stream, compf, fail>>

\* Tolerancing.reset(): every perturbation and every compensator back to its initial value
DoReset == /\ lens' = initv /\ pval' = NomPert
Reset == /\ phase = "reset"
         /\ IF TrialReset THEN DoReset ELSE UNCHANGED <<lens, pval>>
         /\ phase' = "apply"
         /\ UNCHANGED <<Env, idx, pos, k, it, rows, session, rows1, initv, usteps, didcomp>>
\* Perturbation.apply(): sample, remember the value, set the variable
NeedsStream(ps) == Cardinality({p \in ps : kinds[p] = "dist"})
Sampled(p, i, q) == CASE kinds[p] = "scalar" -> ScalarVal
                      [] kinds[p] = "range" -> RangeVals[(i % Len(RangeVals)) + 1]
                      [] OTHER -> stream[q + 1]
Apply ==
  /\ phase = "apply"
  /\ LET ps == IF Shape = "sens" THEN {Perts[k]} ELSE {"p1", "p2"}
         \* stream position used by each perturbation (list order)
         q(p) == pos + (IF p = "p2" /\ "p1" \in ps /\ kinds["p1"] = "dist" THEN 1 ELSE 0)
         v == [p \in ps |-> Sampled(p, idx[p], q(p))] IN
       /\ pos + NeedsStream(ps) <= Len(stream)
       /\ lens' = [lens EXCEPT !.p1 = IF "p1" \in ps THEN v["p1"] ELSE @,
                               !.p2 = IF "p2" \in ps THEN v["p2"] ELSE @]
       /\ pval' = [p \in {"p1", "p2"} |-> IF p \in ps THEN v[p] ELSE pval[p]]
       /\ idx' = [p \in {"p1", "p2"} |-> IF p \in ps /\ kinds[p] = "range" THEN (idx[p] % Len(RangeVals)) + 1 ELSE idx[p]]
       /\ pos' = pos + NeedsStream(ps)
  /\ phase' = "comp"
  /\ UNCHANGED <<Env, k, it, rows, session, rows1, initv, usteps, didcomp>>
\* CompensatorOptimizer.run(): the optimiser moves the compensator variable only
DoCompensate == /\ lens' = IF HasComp /\ ~(CompSkips /\ didcomp) THEN [lens EXCEPT !.c = compf[PertOf(lens)]] ELSE lens
                /\ didcomp' = (didcomp \/ HasComp)
                /\ initv' = IF HasComp /\ CompRebases THEN [initv EXCEPT !.c = lens.c] ELSE initv
Compensate == /\ phase = "comp"
              /\ DoCompensate
              /\ phase' = "eval"
              /\ UNCHANGED <<Env, idx, pos, pval, k, it, rows, session, rows1, usteps>>
\* evaluate the operands and record the row: perturbation values as remembered,
\* compensator value as read from the lens, operand value (possibly NaN)
LastTrial == IF Shape = "sens" THEN it = Len(RangeVals) /\ k = Len(Perts) ELSE it = NTrials
Record == /\ phase = "eval"
          /\ rows' = Append(rows, [pert |-> pval, comp |-> lens.c, val |-> Eval(lens),
                                   which |-> IF Shape = "sens" THEN Perts[k] ELSE "all"])
          /\ IF LastTrial THEN phase' = "end" /\ UNCHANGED <<k, it>>
             ELSE /\ phase' = "reset"
                  /\ IF Shape = "sens" /\ it = Len(RangeVals) THEN k' = k + 1 /\ it' = 1
                     ELSE k' = k /\ it' = it + 1
          /\ UNCHANGED <<Env, lens, idx, pos, pval, session, rows1, initv, usteps, didcomp>>
EndRun == /\ phase = "end"
          /\ IF FinalReset THEN DoReset ELSE UNCHANGED <<lens, pval>>
          /\ phase' = "done"
          /\ UNCHANGED <<Env, idx, pos, k, it, rows, session, rows1, initv, usteps, didcomp>>
\* the user goes on with the same object: one perturbation applied by hand (its sampler advances) ...
UserApply(p) ==
  /\ phase \in {"done", "whatif"} /\ usteps < MaxUser
  /\ pos + (IF kinds[p] = "dist" THEN 1 ELSE 0) <= Len(stream)
  /\ LET v == Sampled(p, idx[p], pos) IN
       /\ lens' = IF p = "p1" THEN [lens EXCEPT !.p1 = v] ELSE [lens EXCEPT !.p2 = v]
       /\ pval' = [pval EXCEPT ![p] = v]
  /\ idx' = [idx EXCEPT ![p] = IF kinds[p] = "range" THEN (idx[p] % Len(RangeVals)) + 1 ELSE @]
  /\ pos' = pos + (IF kinds[p] = "dist" THEN 1 ELSE 0)
  /\ phase' = "whatif" /\ usteps' = usteps + 1
  /\ UNCHANGED <<Env, k, it, rows, session, rows1, initv, didcomp>>
\* ... or apply_compensators() by hand, without a reset in between
UserCompensate ==
  /\ phase \in {"done", "whatif"} /\ usteps < MaxUser /\ HasComp
  /\ DoCompensate
  /\ phase' = "whatif" /\ usteps' = usteps + 1
  /\ UNCHANGED <<Env, idx, pos, pval, k, it, rows, session, rows1>>
\* the user's own reset() after a run / after a what-if
UserReset == /\ phase \in {"done", "whatif"} /\ DoReset /\ phase' = "done"
             /\ UNCHANGED <<Env, idx, pos, k, it, rows, session, rows1, initv, usteps, didcomp>>
\* the same analysis built again with the same seed (fresh samplers, same stream)
NewSession == /\ phase = "done" /\ session = 1
              /\ session' = 2 /\ rows1' = rows /\ rows' = <<>>
              /\ lens' = Nom /\ pval' = NomPert /\ idx' = [p \in {"p1", "p2"} |-> 0] /\ pos' = 0
              /\ phase' = "reset" /\ k' = 1 /\ it' = 1
              /\ initv' = Nom /\ usteps' = 0 /\ didcomp' = FALSE
              /\ UNCHANGED Env
Next == Reset \/ Apply \/ Compensate \/ Record \/ EndRun \/ UserReset \/ NewSession
        \/ UserCompensate \/ \E p \in {"p1", "p2"} : UserApply(p)
Spec == Init /\ [][Next]_vars

--------------------------------------------------------------------------
(* C15                                                                       *)
\* the lens a row claims: nominal, the recorded perturbation values (one at a
\* time: only the swept one), the recorded compensation
Claimed(r) == [p1 |-> IF r.which \in {"all", "p1"} THEN r.pert.p1 ELSE Nom.p1,
               p2 |-> IF r.which \in {"all", "p2"} THEN r.pert.p2 ELSE Nom.p2,
               c |-> r.comp]
RowsTrue == \A i \in 1..Len(rows) : rows[i].val = Eval(Claimed(rows[i]))
\* "... followed by the same compensation": the recorded compensator value is what the compensation
\* of the claimed perturbed lens gives - not merely consistent with the recorded operand
RowsCompensated == HasComp => \A i \in 1..Len(rows) : rows[i].comp = compf[PertOf(Claimed(rows[i]))]
NominalReproduced == \A i \in 1..Len(rows) :
                        (PertOf(Claimed(rows[i])) = NomPert /\ rows[i].comp = Nom.c) => rows[i].val = Eval(Nom)
Reproducible == (session = 2 /\ phase = "done") => rows = rows1
\* phase "done": the run has completed, or the user has called reset() after a what-if
EndStateNominal == phase = "done" => lens = Nom
ResetRestores == [][UserReset => lens' = Nom]_vars
\* what makes reset() right: no step re-bases a handle
HandlesNominal == initv = Nom
TypeOK == /\ phase \in {"reset", "apply", "comp", "eval", "end", "done", "whatif"} /\ session \in {1, 2}
          /\ lens.p1 \in Values /\ lens.p2 \in Values /\ lens.c \in Values
          /\ usteps \in 0..MaxUser
=============================================================================
