---------------------------- MODULE Trace_Seidel ----------------------------
(* Trace validation for C08: every event is one conic-free lens (as the public   *)
(* API reports it), the marginal / chief rays and the index differences the       *)
(* library reports for it, and everything its aberration interface returns        *)
(* (third_order(), seidels(), the twelve single accessors, the AberrationOperand   *)
(* wrappers) plus, for some lenses, real on-axis rays at two small apertures.      *)
(* Seidel!JudgeSeidel evaluates the classical surface formulas on these numbers    *)
(* in dyadic arithmetic, cross-multiplied (no division).  Products are truncated    *)
(* to >= 85 significant bits  (the distortion relation has degree 12); sums and     *)
(* comparisons are exact.                                                         *)
EXTENDS DyadicFast, Json, IOUtils, TLC, SequencesExt
BITS == 32            \* relative tolerance 2^-32 of the term-wise magnitude of each relation
                      \* (magnitudes of products are bounded by powers of two: up to 2^8 larger)
NoDiv(a, b) == NaN    \* Part 1 (values) is not used here
DNear(a, b, t) == IsFin(a) /\ IsFin(b) /\ FSmall(FSub(a, b), t, BITS)
DTiny(a, t) == FSmall(a, t, 30)
DPos(a) == DSign(a) = 1
\* 2^(sum of the binary orders of magnitude): |f1 ... fn| <= DMagProd(f) < 2^n |f1 ... fn|; zero if a factor is
RECURSIVE MagSum(_, _)
MagSum(f, n) == IF n = 0 THEN 0 ELSE Mag(f[n]) + MagSum(f, n - 1)
DMagProd(f) == IF \E i \in 1..Len(f) : ~IsFin(f[i]) THEN NaN
               ELSE IF \E i \in 1..Len(f) : f[i].s = 0 THEN DZero
               ELSE [k |-> "fin", s |-> 1, e |-> MagSum(f, Len(f)), m |-> <<1>>]
INSTANCE Seidel WITH Add <- FAdd, Sub <- FSub, Mul <- FTMul, Div <- NoDiv, Neg <- DNeg,
                     Abs <- DAbs, I <- DInt, Num <- IsFin, Near <- DNear, Tiny <- DTiny, Pos <- DPos, Leq <- DLe,
                     MagProd <- DMagProd
Trace == JsonDeserialize(IOEnv.TRACE_FILE)
VARIABLES l
Init == l = 0
Next == /\ l < Len(Trace)
        /\ LET e == Trace[l + 1]
               v == SetToSeq(JudgeSeidel(e.L, e.E))
           IN \* one short line per failing clause (TLC wraps long values):
              \* <<"V", id, count>> and <<"V", -(512 id + j), "clause@index">>
              /\ PrintT(<<"V", e.id, Len(v)>>)
              /\ \A j \in 1..Len(v) : PrintT(<<"V", -(512 * e.id + j), v[j][1] \o "@" \o ToString(v[j][2])>>)
        /\ l' = l + 1
Spec == Init /\ [][Next]_l
Done == TLCGet("stats").diameter - 1 = Len(Trace) /\ PrintT(<<"DONE", Len(Trace)>>)
=============================================================================
