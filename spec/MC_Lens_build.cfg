SPECIFICATION SpecBuild
CONSTANTS
  MaxSurf = 4
  Radii <- MCRadii
  Thick <- MCThick
  Media <- MCMedia
  Conics <- ZeroOnly
  Kinds <- StdOnly
  Tilts <- ZeroOnly
  Decs <- ZeroOnly
  Coefs <- ZeroOnly
  Waves <- MCWaves
  MaxWl = 2
  MaxPk = 0
  Base <- Empty
  Depth = 10
VIEW View
INVARIANT FirstAtZero
INVARIANT MediumChain
INVARIANT AtMostOneStop
INVARIANT OnePrimary
INVARIANT ObjectBehind
INVARIANT MirrorKeeps
PROPERTY VertexRunningSum
CHECK_DEADLOCK FALSE
