-------------------------- MODULE Trace_Diffraction --------------------------
(* Trace validation for C11: every recorded FFTPSF / FFTMTF / GeometricMTF    *)
(* result of the implementation is judged by the laws of spec/Diffraction.tla *)
(* on the implementation's own numbers.  Events are self-contained, so any    *)
(* sharding is admissible; verdicts are total (a set of failing clause names, *)
(* printed as a bit mask over Diffraction!ClausesOf(kind); names starting     *)
(* with "~" are notes, names starting with "cert:" say that a logged          *)
(* certificate did not validate).                                             *)
EXTENDS Diffraction, Json, IOUtils, TLC
Trace == JsonDeserialize(IOEnv.TRACE_FILE)
VARIABLES tpos
vars == <<tpos>>
Init == tpos = 0
Next == /\ tpos < Len(Trace)
        /\ LET e == Trace[tpos + 1] IN PrintT(<<"V", e.id, Mask(e.kind, Judge(e))>>)
        /\ tpos' = tpos + 1
Spec == Init /\ [][Next]_vars
Done == TLCGet("stats").diameter - 1 = Len(Trace) /\ PrintT(<<"DONE", Len(Trace)>>)
=============================================================================
