------------------------------ MODULE Catalogue ------------------------------
(* C18: what a catalogue material must return.                                *)
(*                                                                            *)
(* The laws are the refractiveindex.info definitions ("Dispersion formulas",  *)
(* database/doc), not the code: each formula is brought to the common shape   *)
(*        A / Bq  =  c0  +  SUM_i  N_i / D_i                                   *)
(* (A, Bq polynomial in the returned index n; N_i, D_i polynomial in the       *)
(* wavelength w and the file's coefficients) and judged after clearing every  *)
(* denominator,                                                               *)
(*        A * PROD_j D_j  =  Bq * ( c0 * PROD_j D_j + SUM_i N_i PROD_{j#i} D_j )*)
(* on exact dyadic numbers: no division, no square root (n^2 is computed      *)
(* here from the recorded n).  Tolerance: 2^-FBITS of the sum of the absolute *)
(* values of the terms of the identity.                                       *)
(*                                                                            *)
(*   1 Sellmeier   n^2-1 = C1 + SUM C_k w^2/(w^2 - C_{k+1}^2)                  *)
(*   2 Sellmeier-2 n^2-1 = C1 + SUM C_k w^2/(w^2 - C_{k+1})                    *)
(*   3 Polynomial  n^2   = C1 + SUM C_k w^C_{k+1}                              *)
(*   4 RI.INFO     n^2   = C1 + C2 w^C3/(w^2 - C4^C5) + C6 w^C7/(w^2 - C8^C9)  *)
(*                            + SUM_{k>=10} C_k w^C_{k+1}                      *)
(*   5 Cauchy      n     = C1 + SUM C_k w^C_{k+1}                              *)
(*   6 Gases       n-1   = C1 + SUM C_k/(C_{k+1} - w^-2)                       *)
(*   7 Herzberger  n     = C1 + C2/(w^2-0.028) + C3/(w^2-0.028)^2              *)
(*                            + C4 w^2 + C5 w^4 + C6 w^6                       *)
(*   8 Retro       (n^2-1)/(n^2+2) = C1 + C2 w^2/(w^2 - C3) + C4 w^2           *)
(*   9 Exotic      n^2   = C1 + C2/(w^2 - C3) + C4 (w-C5)/((w-C5)^2 + C6)      *)
(*   tabulated n / nk / k: the value lies on the segment between two rows of  *)
(*                 the file's table that are adjacent in wavelength order and *)
(*                 bracket w.                                                 *)
(*                                                                            *)
(* Exponents: an exponent coefficient that is a (small) integer is used       *)
(* exactly; any other exponent enters through a logged power certificate      *)
(* p = base^e which is validated when e = num/den is a small rational         *)
(* (p^den = base^num) and trusted otherwise.                                  *)
EXTENDS Dyadic

FBITS == 30     \* formula / segment identities: residual <= 2^-30 of the term scale
ABITS == 40     \* scalar and array evaluation agree to 2^-40 relative
VBITS == 45     \* Abbe number identity
PBITS == 40     \* polyval identity of the model glass; rational power certificates
ILLBITS == 18   \* a denominator that lost more than 18 bits to cancellation is not judged

RECURSIVE CPow(_, _)
CPow(x, n) == IF n = 0 THEN DOne ELSE TMul(x, CPow(x, n - 1))    \* >= 113 bits kept
Fr(n, d) == [n |-> n, d |-> d]                                   \* the fraction n / d
DAbsSum(s) == DSumSeq([i \in 1..Len(s) |-> DAbs(s[i])])

--------------------------------------------------------------------------
(* power certificates.  x describes the exponent at one coefficient position: *)
(*   [t |-> "int", e |-> k]              exponent is the integer k              *)
(*   [t |-> "rat", num, den, p]          exponent num/den, p = base^(num/den)  *)
(*   [t |-> "lib", p]                    p = base^exponent, trusted (libm)     *)
(*   [t |-> "none"]                      position is not an exponent           *)
PowOK(base, ec, x) ==
  CASE x.t = "int" -> DEq(DInt(x.e), ec) /\ x.e \in -64..64
    [] x.t = "rat" -> /\ x.den \in 2..8 /\ x.num \in -32..32
                      /\ DEq(DMul(ec, DInt(x.den)), DInt(x.num))
                      /\ IsFin(x.p) /\ DSign(x.p) = 1 /\ DSign(base) = 1
                      /\ IF x.num >= 0 THEN Close(CPow(x.p, x.den), CPow(base, x.num), PBITS)
                         ELSE Close(TMul(CPow(x.p, x.den), CPow(base, -x.num)), DOne, PBITS)
    [] x.t = "lib" -> IsFin(x.p)
    [] OTHER -> FALSE
Pow(base, x) == IF x.t = "int"
                THEN (IF x.e >= 0 THEN Fr(CPow(base, x.e), DOne) ELSE Fr(DOne, CPow(base, -x.e)))
                ELSE Fr(x.p, DOne)

--------------------------------------------------------------------------
(* a term N/D; m is the magnitude of the parts D was formed from (for the     *)
(* conditioning test: |D| << m means w sits on a pole of the formula)         *)
Term(n, d, m) == [n |-> n, d |-> d, m |-> m]
Mono(c, p) == Term(TMul(c, p.n), p.d, DAbs(p.d))                  \* c * w^e
RECURSIVE ProdFrom(_, _, _)
ProdFrom(ts, i, skip) == IF i > Len(ts) THEN DOne
                         ELSE IF i = skip THEN ProdFrom(ts, i + 1, skip)
                         ELSE TMul(ts[i].d, ProdFrom(ts, i + 1, skip))
\* G / P = c0 + SUM N_i/D_i  with P = PROD D_j;  Ga bounds the magnitude of G's terms
Cleared(c0, ts) ==
  LET P == ProdFrom(ts, 1, 0)
      parts == [i \in 1..Len(ts) |-> TMul(ts[i].n, ProdFrom(ts, 1, i))]
      c0P == TMul(c0, P)
  IN [P |-> P, G |-> DAdd(c0P, DSumSeq(parts)), Ga |-> DAdd(DAbs(c0P), DAbsSum(parts))]
\* A = c0 + SUM N_i/D_i
Holds(A, c0, ts) ==
  LET q == Cleared(c0, ts)
      lhs == TMul(A, q.P)
  IN Small(DSub(lhs, q.G), DAdd(DAbs(lhs), q.Ga), FBITS)
\* (n2 - 1)/(n2 + 2) = b  <=>  n2 (P - G) = P + 2 G     (formula 8, b = G/P)
Holds8(n2, c0, ts) ==
  LET q == Cleared(c0, ts)
      lhs == TMul(n2, DSub(q.P, q.G))
      rhs == DAdd(q.P, DTwo(q.G))
      scale == DAdd(TMul(n2, DAdd(DAbs(q.P), q.Ga)), DAdd(DAbs(q.P), DTwo(q.Ga)))
  IN Small(DSub(lhs, rhs), scale, FBITS)
IllConditioned(ts) == \E i \in 1..Len(ts) : ~IsFin(ts[i].d) \/ ~IsFin(ts[i].m)
                                            \/ DLt(DShift(DAbs(ts[i].d), ILLBITS), ts[i].m)

--------------------------------------------------------------------------
(* the terms of each formula from the file's coefficient list c (1-based),    *)
(* the certificates x (same length) and the wavelength w                      *)
Ks(c, k0) == [i \in 1..((Len(c) - k0 + 1) \div 2) |-> k0 + 2 * (i - 1)]      \* k0, k0+2, ... <= Len(c)-1
W2(w) == DSq(w)
Terms1(c, w) == LET ks == Ks(c, 2) IN
  [i \in 1..Len(ks) |-> LET k == ks[i] IN
     Term(TMul(c[k], W2(w)), DSub(W2(w), DSq(c[k + 1])), DAdd(W2(w), DSq(c[k + 1])))]
Terms2(c, w) == LET ks == Ks(c, 2) IN
  [i \in 1..Len(ks) |-> LET k == ks[i] IN
     Term(TMul(c[k], W2(w)), DSub(W2(w), c[k + 1]), DAdd(W2(w), DAbs(c[k + 1])))]
TermsPoly(c, x, w, k0) == LET ks == Ks(c, k0) IN
  [i \in 1..Len(ks) |-> Mono(c[ks[i]], Pow(w, x[ks[i] + 1]))]
\* C w^a / (w^2 - b^g):  w^a = pn/pd, b^g = qn/qd  ->  C pn qd / (pd (w^2 qd - qn))
Head4(c, x, w, k) ==
  LET p == Pow(w, x[k + 1])
      q == Pow(c[k + 2], x[k + 3])
      a == TMul(W2(w), q.d)
  IN Term(TMul(TMul(c[k], p.n), q.d), TMul(p.d, DSub(a, q.n)), TMul(DAbs(p.d), DAdd(DAbs(a), DAbs(q.n))))
Terms4(c, x, w) == <<Head4(c, x, w, 2), Head4(c, x, w, 6)>> \o TermsPoly(c, x, w, 10)
Terms6(c, w) == LET ks == Ks(c, 2) IN                       \* C/(B - w^-2) = C w^2/(B w^2 - 1)
  [i \in 1..Len(ks) |-> LET k == ks[i]
                            a == TMul(c[k + 1], W2(w)) IN
     Term(TMul(c[k], W2(w)), DSub(a, DOne), DAdd(DAbs(a), DOne))]
\* w^2 - 0.028 = (1000 w^2 - 28)/1000, exactly
Terms7(c, w) ==
  LET a == DMul(DInt(1000), W2(w))
      h == DSub(a, DInt(28))
      m == DAdd(a, DInt(28))
  IN <<Term(DMul(DInt(1000), c[2]), h, m), Term(DMul(DInt(1000000), c[3]), DSq(h), DSq(m))>>
     \o [i \in 1..(Len(c) - 3) |-> Term(TMul(c[i + 3], CPow(W2(w), i)), DOne, DOne)]
Terms8(c, w) == <<Term(TMul(c[2], W2(w)), DSub(W2(w), c[3]), DAdd(W2(w), DAbs(c[3]))),
                  Term(TMul(c[4], W2(w)), DOne, DOne)>>
Terms9(c, w) == LET u == DSub(w, c[5]) IN
  <<Term(c[2], DSub(W2(w), c[3]), DAdd(W2(w), DAbs(c[3]))),
    Term(TMul(c[4], u), DAdd(DSq(u), c[6]), DAdd(DSq(u), DAbs(c[6])))>>

\* positions that must carry a valid certificate
ExpPos(f, c) == IF f \in {3, 5} THEN {k + 1 : k \in {j \in 2..Len(c) : j % 2 = 0}}
                ELSE IF f = 4 THEN {3, 5, 7, 9} \cup {k + 1 : k \in {j \in 10..Len(c) : j % 2 = 0}}
                ELSE {}
WellFormed(f, c) ==
  CASE f \in {1, 2, 3, 5, 6} -> Len(c) >= 1 /\ Len(c) % 2 = 1
    [] f = 4 -> Len(c) >= 9 /\ Len(c) % 2 = 1
    [] f = 7 -> Len(c) >= 3
    [] f = 8 -> Len(c) = 4
    [] f = 9 -> Len(c) = 6
    [] OTHER -> FALSE
CertsOK(f, c, x, w) ==
  /\ Len(x) = Len(c)
  /\ \A k \in ExpPos(f, c) : PowOK(IF f = 4 /\ k \in {5, 9} THEN c[k - 1] ELSE w, c[k], x[k])
FormulaNo(type) ==
  CASE type = "formula 1" -> 1 [] type = "formula 2" -> 2 [] type = "formula 3" -> 3
    [] type = "formula 4" -> 4 [] type = "formula 5" -> 5 [] type = "formula 6" -> 6
    [] type = "formula 7" -> 7 [] type = "formula 8" -> 8 [] type = "formula 9" -> 9
    [] OTHER -> 0
TermsOf(f, c, x, w) ==
  CASE f = 1 -> Terms1(c, w) [] f = 2 -> Terms2(c, w)
    [] f \in {3, 5} -> TermsPoly(c, x, w, 2)
    [] f = 4 -> Terms4(c, x, w) [] f = 6 -> Terms6(c, w) [] f = 7 -> Terms7(c, w)
    [] f = 8 -> Terms8(c, w) [] f = 9 -> Terms9(c, w)
SqrtForm(f) == f \in {1, 2, 3, 4, 8, 9}        \* the formula defines n^2: n is its principal root
FormulaHolds(f, c, x, w, n) ==
  LET ts == TermsOf(f, c, x, w)
      n2 == DSq(n)
  IN CASE f \in {1, 2} -> Holds(n2, DAdd(DOne, c[1]), ts)
       [] f \in {3, 4, 9} -> Holds(n2, c[1], ts)
       [] f \in {5, 7} -> Holds(n, c[1], ts)
       [] f = 6 -> Holds(n, DAdd(DOne, c[1]), ts)
       [] f = 8 -> Holds8(n2, c[1], ts)

Same(a, b, bits) == IF IsFin(a) /\ IsFin(b) THEN Close(a, b, bits) ELSE a = b
(* event: type, c, x, w, n (scalar call), na (same wavelength inside an array call) *)
JudgeFormula(e) ==
  LET f == FormulaNo(e.type) IN
  IF f = 0 THEN {"unknown_type"}
  ELSE IF ~WellFormed(f, e.c) THEN {"malformed_coefficients"}
  ELSE IF ~(IsFin(e.w) /\ DSign(e.w) = 1 /\ \A k \in 1..Len(e.c) : IsFin(e.c[k])) THEN {"bad_input"}
  ELSE IF ~CertsOK(f, e.c, e.x, e.w) THEN {"certificate"}
  ELSE IF IllConditioned(TermsOf(f, e.c, e.x, e.w)) THEN {"ill_conditioned"}
  ELSE (IF Same(e.n, e.na, ABITS) THEN {} ELSE {"scalar_array"}) \cup
       (IF ~IsFin(e.n) THEN {"not_finite"}
        ELSE (IF FormulaHolds(f, e.c, e.x, e.w, e.n) THEN {} ELSE {"formula"}) \cup
             (IF SqrtForm(f) /\ DSign(e.n) < 0 THEN {"root_sign"} ELSE {}))

--------------------------------------------------------------------------
(* tabulated data: e.v returned at e.w; e.segs = the pairs of rows            *)
(* <<w0, v0, w1, v1>> adjacent in wavelength order with w0 <= w <= w1          *)
OnSegment(w, v, s) ==
  LET w0 == s[1]  v0 == s[2]  w1 == s[3]  v1 == s[4]
      dw == DSub(w1, w0)
      dv == DSub(v1, v0)
      res == DSub(DMul(DSub(v, v0), dw), DMul(dv, DSub(w, w0)))
      scale == DAdd(DMul(DAbs(v), DAbs(dw)), DMul(DAbs(dv), DAbs(DSub(w, w0))))
      lo == IF DLe(v0, v1) THEN v0 ELSE v1
      hi == IF DLe(v0, v1) THEN v1 ELSE v0
      slack == DShift(DAdd(DAbs(lo), DAbs(hi)), -FBITS)
  IN /\ DLe(w0, w) /\ DLe(w, w1)
     /\ Small(res, scale, FBITS)
     /\ DLe(DSub(lo, slack), v) /\ DLe(v, DAdd(hi, slack))
JudgeTab(e) ==
  IF e.segs = <<>> THEN {"no_bracket"}
  ELSE (IF Same(e.v, e.va, ABITS) THEN {} ELSE {"scalar_array"}) \cup
       (IF ~IsFin(e.v) THEN {"not_finite"}
        ELSE IF \E i \in 1..Len(e.segs) : OnSegment(e.w, e.v, e.segs[i]) THEN {} ELSE {"segment"})

--------------------------------------------------------------------------
(* Abbe number  V = (n_d - 1)/(n_F - n_C)  at d 587.5618, F 486.1327,         *)
(* C 656.2725 nm; wavelengths in units of 1e-7 micron are integers            *)
LineNm(line) == CASE line = "d" -> 5875618 [] line = "F" -> 4861327 [] line = "C" -> 6562725
IsLine(w, line) == Close(DMul(w, DInt(10000000)), DInt(LineNm(line)), 48)
AbbeHolds(V, nd, nF, nC) ==
  LET disp == DSub(nF, nC) IN
  IF ~(IsFin(nd) /\ IsFin(nF) /\ IsFin(nC)) THEN FALSE
  ELSE IF disp = DZero THEN ~IsFin(V)                    \* no dispersion: no finite Abbe number
  ELSE LET lhs == DMul(V, disp)
           rhs == DSub(nd, DOne)
       IN Small(DSub(lhs, rhs), DAdd(DAbs(lhs), DAbs(rhs)), VBITS)

--------------------------------------------------------------------------
(* model glass (n_d, V_d): n(w) = SUM_j p_j w^(3-j),                          *)
(* p = (n_d, V_d, n_d^2, V_d^2, n_d^3, V_d^3) . K  with K the 6 x 4 table of   *)
(* database/glass_model_coefficients.npy (the documented Schott fit)          *)
XPoly(nd, V) == <<nd, V, DSq(nd), DSq(V), DMul(nd, DSq(nd)), DMul(V, DSq(V))>>
PolyvalHolds(nd, V, K, w, n) ==
  LET X == XPoly(nd, V)
      wp == <<DMul(w, DSq(w)), DSq(w), w, DOne>>
      ts == [t \in 1..24 |-> LET i == ((t - 1) \div 4) + 1
                                 j == ((t - 1) % 4) + 1 IN TMul(TMul(X[i], K[i][j]), wp[j])]
  IN Small(DSub(n, DSumSeq(ts)), DAbsSum(ts), PBITS)
\* accuracy of the fit over the Schott glass map (1.44 <= n_d <= 2.01, 20 <= V_d <= 85):
\* not documented by the library; measured (worst 7.0e-4 and 9.6 %) and stated with margin
FitNdBits == 10                                   \* |n(d) - n_d| <= 2^-10
FitVShift == 3                                    \* |V_model - V_d| <= V_d / 8
InGlassMap(nd, V) == /\ DLe(DInt(144), DMul(nd, DInt(100))) /\ DLe(DMul(nd, DInt(100)), DInt(201))
                     /\ DLe(DInt(20), V) /\ DLe(V, DInt(85))
FitNd(nd, n1) == DLe(DAbs(DSub(n1, nd)), DShift(DOne, -FitNdBits))
FitV(V, n1, nF, nC) ==
  LET disp == DSub(nF, nC) IN
  /\ DSign(disp) = 1
  /\ DLe(DAbs(DSub(DMul(V, disp), DSub(n1, DOne))), DShift(DMul(V, disp), -FitVShift))
(* event: nd, V, K, pts = <<[w, n, na], ...>> (n scalar call, na inside an array   *)
(* call) whose first three are the d, F, C lines                                *)
JudgeModel(e) ==
  IF ~InGlassMap(e.nd, e.V) THEN {"outside_glass_map"}
  ELSE (IF \A i \in 1..Len(e.pts) : IsFin(e.pts[i].n) /\ PolyvalHolds(e.nd, e.V, e.K, e.pts[i].w, e.pts[i].n)
        THEN {} ELSE {"polyval"}) \cup
       (IF \A i \in 1..Len(e.pts) : Same(e.pts[i].n, e.pts[i].na, ABITS) THEN {} ELSE {"scalar_array"}) \cup
       (IF IsLine(e.pts[1].w, "d") /\ IsLine(e.pts[2].w, "F") /\ IsLine(e.pts[3].w, "C")
        THEN {} ELSE {"line_wavelength"}) \cup
       (IF FitNd(e.nd, e.pts[1].n) THEN {} ELSE {"fit_nd"}) \cup
       (IF FitV(e.V, e.pts[1].n, e.pts[2].n, e.pts[3].n) THEN {} ELSE {"fit_abbe"})

--------------------------------------------------------------------------
(* lookup post-condition.  Cat: sequence of rows [name, reference, filename,  *)
(* ...]; q = [name, has_ref, ref]; r = [ok, name, reference, filename].       *)
(* Only equality of names is used, so names may be strings (the real          *)
(* catalogue) or sequences of symbols (the toy catalogue of MC_Catalogue).    *)
Exact(Cat, q) == {i \in 1..Len(Cat) : Cat[i].name = q.name /\ (q.has_ref => Cat[i].reference = q.ref)}
LookupFails(Cat, q, r) ==
  IF Exact(Cat, q) = {} THEN {}                           \* nothing is claimed for inexact queries
  ELSE IF ~r.ok THEN {"lookup_raises"}
  ELSE (IF r.name = q.name THEN {} ELSE {"name_exact"}) \cup
       (IF q.has_ref /\ r.reference # q.ref THEN {"reference"} ELSE {}) \cup
       (IF \E i \in 1..Len(Cat) : Cat[i].name = r.name /\ Cat[i].reference = r.reference
                                  /\ Cat[i].filename = r.filename
        THEN {} ELSE {"not_a_row"})
LookupPost(Cat, q, r) == LookupFails(Cat, q, r) = {}
=============================================================================
