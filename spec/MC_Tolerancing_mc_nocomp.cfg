SPECIFICATION Spec
CONSTANTS
  Values <- MCValues
  Nom <- MCNom
  Shape = "mc"
  KindSets <- AllKinds
  RangeVals <- MCRange
  ScalarVal = 2
  NTrials = 2
  Streams <- Streams4
  WithComp = FALSE
  CompFns <- OneCompFn
  FailSets <- MCFailSets
  TrialReset = TRUE
  FinalReset = TRUE
  CompRebases = FALSE
  MaxUser = 0
  CompSkips = FALSE
INVARIANT TypeOK
INVARIANT RowsTrue
INVARIANT NominalReproduced
INVARIANT Reproducible
INVARIANT EndStateNominal
INVARIANT HandlesNominal
PROPERTY ResetRestores
CHECK_DEADLOCK FALSE
