---------------------------- MODULE ParaxialGrid ----------------------------
(* The lens grid shared by MC_Paraxial and MC_Seidel: natural-number codes       *)
(* (cfg files have no negative literals) -> the lens record L of Paraxial with    *)
(* exact rational entries.                                                       *)
(*   surface code <<rad, med, thk, asp>>:                                         *)
(*     rad  0 = plane, r = radius r, 100 + r = radius -r                           *)
(*     med  1: n = 1, 2: n = 3/2, 3: n = 2, 4: mirror                              *)
(*     thk  vertex separation (negated behind an odd number of mirrors)            *)
(*     asp  0: no r^2 term, 1: a2 = 1/64                                           *)
(*   cfg  1 inf/EPD/angle  2 inf/FNO/angle  3 fin/EPD/angle  4 fin/EPD/height      *)
(*        5 fin/FNO/angle  6 fin/FNO/height 7 fin/NA/angle   8 fin/NA/height       *)
(*   EPD = 2, F/# = 4, NA = 3/5 (tan = 3/4), tan(field) = 1/4, height = 2,         *)
(*   finite object at z = -24, object space is air; the image surface is a plane   *)
(*   inside the last medium.  Dispersion n_F - n_C: 0, 1/16, 1/8 for med 1, 2, 3.   *)
EXTENDS SmallRat, Sequences
Q(n, d) == QNorm(n, d)
RadOf(c) == IF c > 100 THEN 100 - c ELSE c
RECURSIVE Par(_, _)          \* +1 / -1 behind surface k
Par(sf, k) == IF k = 0 THEN 1 ELSE (IF sf[k][2] = 4 THEN -1 ELSE 1) * Par(sf, k - 1)
RECURSIVE MedOf(_, _)        \* medium code behind surface k (a mirror keeps the medium)
MedOf(sf, k) == IF k = 0 THEN 1 ELSE IF sf[k][2] = 4 THEN MedOf(sf, k - 1) ELSE sf[k][2]
NOfMed(m) == CASE m = 1 -> Q(1, 1) [] m = 2 -> Q(3, 2) [] m = 3 -> Q(2, 1)
DNOfMed(m) == CASE m = 1 -> Q(0, 1) [] m = 2 -> Q(1, 16) [] m = 3 -> Q(1, 8)
RECURSIVE ZPos(_, _)         \* vertex of surface k, an integer
ZPos(sf, k) == IF k = 1 THEN 0 ELSE ZPos(sf, k - 1) + Par(sf, k - 1) * sf[k - 1][3]
ObjZ == -24
ToL(e) ==
  LET n == Len(e.sf)
      fin == e.cfg >= 3
      apt == CASE e.cfg \in {1, 3, 4} -> "EPD" [] e.cfg \in {2, 5, 6} -> "imageFNO" [] OTHER -> "objectNA"
      fdt == IF e.cfg \in {4, 6, 8} THEN "object_height" ELSE "angle"
  IN [K |-> n + 1,
      R |-> [k \in 1..(n + 1) |-> IF k = n + 1 THEN [pl |-> TRUE, v |-> QInt(0), a2 |-> QInt(0)]
                                  ELSE [pl |-> e.sf[k][1] = 0, v |-> QInt(RadOf(e.sf[k][1])),
                                        a2 |-> IF e.sf[k][4] = 1 THEN Q(1, 64) ELSE QInt(0)]],
      na |-> [k \in 1..(n + 2) |-> NOfMed(MedOf(e.sf, IF k = n + 2 THEN n ELSE k - 1))],
      mir |-> [k \in 1..(n + 1) |-> k <= n /\ e.sf[k][2] = 4],
      z |-> [k \in 1..(n + 1) |-> QInt(ZPos(e.sf, k))],
      s |-> e.s,
      obj |-> [inf |-> ~fin, z |-> IF fin THEN QInt(ObjZ) ELSE QInt(0)],
      ap |-> CASE apt = "EPD" -> [t |-> apt, v |-> QInt(2), tn |-> QInt(0)]
               [] apt = "imageFNO" -> [t |-> apt, v |-> QInt(4), tn |-> QInt(0)]
               [] apt = "objectNA" -> [t |-> apt, v |-> Q(3, 5), tn |-> Q(3, 4)],
      fld |-> IF fdt = "angle" THEN [t |-> fdt, v |-> Q(1, 4)] ELSE [t |-> fdt, v |-> QInt(2)]]
\* |n_F - n_C| of the spaces 0..K
ToDN(e) == LET n == Len(e.sf) IN [k \in 1..(n + 2) |-> DNOfMed(MedOf(e.sf, IF k = n + 2 THEN n ELSE k - 1))]
RECURSIVE Flat(_)            \* <<num, den, num, den, ...>>
Flat(s) == IF s = <<>> THEN <<>> ELSE <<s[1][1], s[1][2]>> \o Flat(Tail(s))
AllDef(s) == \A i \in 1..Len(s) : QDef(s[i])
RECURSIVE CodeSum(_)
CodeSum(sf) == IF sf = <<>> THEN 0 ELSE sf[1][1] + 3 * sf[1][2] + sf[1][3] + CodeSum(Tail(sf))
=============================================================================
