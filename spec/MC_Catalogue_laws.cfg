SPECIFICATION SpecW
CONSTANT Variant = "spec"
INVARIANT WitnessInv
INVARIANT ConstLaws
CHECK_DEADLOCK FALSE
