---------------------------- MODULE MC_Paraxial ----------------------------
(* Exhaustive grid model for C04.  A state is one lens of the grid; the only   *)
(* step computes, in exact rational arithmetic, every accessor and the         *)
(* marginal / chief rays from the system matrix (Paraxial!Model) and the       *)
(* truth values of the theorems below.  `-dump` exports lens and `out`; the     *)
(* harness builds each lens with the public API and compares the code's         *)
(* results with `out`.                                                         *)
(*                                                                            *)
(* Grid: see ParaxialGrid (Counts = numbers of powered surfaces; RadCodes,      *)
(* MedCodes, ThkCodes, AspCodes = admissible codes per surface; Cfgs).           *)
EXTENDS ParaxialGrid, TLC
CONSTANTS Counts, RadCodes, MedCodes, ThkCodes, AspCodes, Cfgs
VARIABLES lens, out, thm
vars == <<lens, out, thm>>

QNear(a, b, s) == QDef(a) /\ QDef(b) /\ a = b
QTiny(a, s) == a[1] = 0
QPos(a) == a[1] > 0
INSTANCE Paraxial WITH Add <- QAdd, Sub <- QSub, Mul <- QMul, Div <- QDiv, Neg <- QNeg,
                       Abs <- QAbs, I <- QInt, Num <- QDef, Near <- QNear, Tiny <- QTiny, Pos <- QPos

Surf == RadCodes \X MedCodes \X ThkCodes \X AspCodes
AccOrder(a) == <<a.f1, a.f2, a.F1, a.F2, a.P1, a.P2, a.N1, a.N2, a.EPL, a.EPD, a.XPL, a.XPD, a.FNO, a.mag, a.inv>>
Export(X) == Flat(AccOrder(X.acc) \o X.ma.y \o X.ma.u \o X.ch.y \o X.ch.u)

Names(V) == {c[1] : c \in V}
Theorems(L, X, pick) ==
  LET K == L.K
      M == X.M
      U == MMul(RefU(L, K), SysU(L, 1, K))
      n0 == N(L, 0)
      nK == N(L, K)
      MatRay(r) == AllDef(r.y) /\ AllDef(r.u) =>
                     /\ At(r.y, K) = QAdd(QMul(M[1], At(r.y, 1)), QMul(M[2], QMul(n0, At(r.u, 0))))
                     /\ QMul(nK, At(r.u, K)) = QAdd(QMul(M[3], At(r.y, 1)), QMul(M[4], QMul(n0, At(r.u, 0))))
      raysDef == AllDef(X.ma.y) /\ AllDef(X.ma.u) /\ AllDef(X.ch.y) /\ AllDef(X.ch.u)
      V == Verdict(L, X)
      a == X.acc
      Bump(r, f, k) == [r EXCEPT ![f][k + 1] = QAdd(@, QInt(1))]
  IN [det |-> Det(M) = QInt(1) /\ Det(U) = QDiv(n0, nK),
      matU |-> U = <<M[1], QMul(M[2], n0), QDiv(M[3], nK), QDiv(QMul(M[4], n0), nK)>>,
      matray |-> MatRay(X.ma) /\ MatRay(X.ch) /\ MatRay(X.A) /\ MatRay(X.B),
      bray |-> (QDef(At(X.B.y, K)) => At(X.B.y, K) = QInt(1) /\ At(X.B.u, K) = QInt(0)),
      lag |-> raysDef => \A k \in 1..K : LET t == LagT(L, X.ma, X.ch, k) IN QSub(t[1], t[2]) = a.inv,
      laws |-> V,
      \* vacuity guard: a perturbed record is rejected by the clause that owns the perturbed number
      \* (one perturbation per lens, chosen by `pick`, so that all of them are spread over the grid)
      sens |-> CASE pick = 0 -> (QDef(a.f2) /\ a.f2[1] # 0 => "f2" \in Names(Verdict(L, [X EXCEPT !.acc.f2 = QNeg(@)])))
                 [] pick = 1 -> (QDef(a.f2) => "P2" \in Names(Verdict(L, [X EXCEPT !.acc.P2 = QAdd(@, QInt(1))])))
                 [] pick = 2 -> (QDef(a.f1) => "N1" \in Names(Verdict(L, [X EXCEPT !.acc.N1 = QAdd(@, QInt(1))])))
                 [] pick = 3 -> (raysDef => "marginal_transfer" \in Names(Verdict(L, [X EXCEPT !.ma = Bump(@, "y", L.s)])))
                 [] pick = 4 -> (raysDef => "chief_stop" \in Names(Verdict(L, [X EXCEPT !.ch = Bump(@, "y", L.s)])))
                 [] pick = 5 -> (raysDef => "chief_refract" \in Names(Verdict(L, [X EXCEPT !.ch = Bump(@, "u", K)])))
                 [] pick = 6 -> (raysDef => "marginal_refract" \in Names(Verdict(L, [X EXCEPT !.ma = Bump(@, "u", 1)])))
                 [] pick = 7 -> (raysDef /\ QDef(a.XPL) /\ QDef(a.XPD) =>
                                   "XPD" \in Names(Verdict(L, [X EXCEPT !.acc.XPD = QAdd(@, QInt(1))])))
                 [] pick = 8 -> (raysDef /\ QDef(a.XPL) => "XPL" \in Names(Verdict(L, [X EXCEPT !.acc.XPL = QAdd(@, QInt(1))])))
                 [] pick = 9 -> (raysDef => "EPL" \in Names(Verdict(L, [X EXCEPT !.acc.EPL = QAdd(@, QInt(1))])))
                 [] pick = 10 -> (raysDef /\ QDef(a.mag) => "magnification" \in Names(Verdict(L, [X EXCEPT !.acc.mag = QAdd(@, QInt(1))])))
                 [] pick = 11 -> (raysDef => "invariant" \in Names(Verdict(L, [X EXCEPT !.acc.inv = QAdd(@, QInt(1))])))
                 [] pick = 12 -> (raysDef => "lagrange" \in Names(Verdict(L, [X EXCEPT !.ch = Bump(@, "u", K - 1)]))
                                             \/ "chief_refract" \in Names(Verdict(L, [X EXCEPT !.ch = Bump(@, "u", K - 1)])))]

Init == /\ \E n \in Counts : \E sf \in [1..n -> Surf] : \E s \in 1..n : \E c \in Cfgs :
             lens = [sf |-> sf, s |-> s, cfg |-> c]
        /\ out = <<>> /\ thm = <<>>
Next == /\ out = <<>>
        /\ LET L == ToL(lens)
               X == Model(L)
           IN out' = Export(X) /\ thm' = Theorems(L, X, (CodeSum(lens.sf) + lens.s + 5 * lens.cfg) % 13)
        /\ UNCHANGED lens
Spec == Init /\ [][Next]_vars

Done == out # <<>>
DetThm == Done => thm.det            \* det of the system matrix: 1 on (y, n u), n_0 / n_K on (y, u)
MatrixForms == Done => thm.matU      \* the (y, u) and (y, n u) products describe the same map
MatrixIsTrace == Done => thm.matray  \* surface-by-surface trace = system matrix applied to the launch
ReverseRay == Done => thm.bray       \* the ray built from the inverse matrix leaves parallel at height 1
LagrangeThm == Done => thm.lag       \* n (ybar u - y ubar) is the same behind every surface
ModelSatisfiesLaws == Done => thm.laws = {}   \* Part 1 satisfies the relations of Part 2 (incl. linearity)
LawsNotVacuous == Done => thm.sens
=============================================================================
