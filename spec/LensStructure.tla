--------------------------- MODULE LensStructure ---------------------------
(* The flag structure of a lens, for any number of surfaces and wavelengths:  *)
(* which surfaces carry the aperture-stop flag, which wavelengths the primary *)
(* flag.  It is the projection  n = N, stops = {j : surf[j].stop},            *)
(* w = Len(wl), prim = {j : wl[j].primary}  of spec/Lens.tla:                 *)
(*   - TLC checks on the bounded Lens models that every Lens step is a step   *)
(*     of this module or leaves the projection unchanged (MC_Lens,            *)
(*     StructureRefined);                                                     *)
(*   - Apalache proves IndInv inductive here, i.e. AtMostOneStop and          *)
(*     OnePrimary for lenses of every size (no bound on n, w);                *)
(*   - the replay of Lens behaviours binds Lens to the code.                  *)
(* The steps mirror SurfaceGroup.add_surface (append or insert: a new stop    *)
(* clears every other flag), remove_surface, and                              *)
(* WavelengthGroup.add_wavelength (a new primary clears the others; the first *)
(* wavelength is primary whatever the argument).                              *)
EXTENDS Integers, FiniteSets
VARIABLES
  \* @type: Int;
  n,
  \* @type: Set(Int);
  stops,
  \* @type: Int;
  w,
  \* @type: Set(Int);
  prim

\* @type: (Set(Int), Int) => Set(Int);
Shift(S, i) == {IF j >= i THEN j + 1 ELSE j : j \in S}
\* @type: (Set(Int), Int) => Set(Int);
Unshift(S, i) == {IF j > i THEN j - 1 ELSE j : j \in S \ {i}}

\* the steps as predicates over explicit pre- and post-values, so that both TLC (on the
\* projection of Lens) and Apalache (on the variables) can use them
AAppend(st, n0, S0, n1, S1) == n1 = n0 + 1 /\ S1 = (IF st THEN {n0 + 1} ELSE S0)
AInsert(i, st, n0, S0, n1, S1) == i >= 1 /\ i <= n0 /\ n1 = n0 + 1 /\ S1 = (IF st THEN {i} ELSE Shift(S0, i))
ARemove(i, n0, S0, n1, S1) == i >= 1 /\ i <= n0 /\ n1 = n0 - 1 /\ S1 = Unshift(S0, i)
AAddWl(p, w0, P0, w1, P1) == w1 = w0 + 1 /\ P1 = (IF p \/ w0 = 0 THEN {w0 + 1} ELSE P0)
AReset(n1, S1, w1, P1) == n1 = 0 /\ S1 = {} /\ w1 = 0 /\ P1 = {}          \* Optic.reset()

Init == n = 0 /\ stops = {} /\ w = 0 /\ prim = {}
Next == \/ \E st \in BOOLEAN : AAppend(st, n, stops, n', stops') /\ UNCHANGED <<w, prim>>
        \/ \E st \in BOOLEAN : \E i \in Int : AInsert(i, st, n, stops, n', stops') /\ UNCHANGED <<w, prim>>
        \/ \E i \in Int : ARemove(i, n, stops, n', stops') /\ UNCHANGED <<w, prim>>
        \/ \E p \in BOOLEAN : AAddWl(p, w, prim, w', prim') /\ UNCHANGED <<n, stops>>
        \/ AReset(n', stops', w', prim')

AtMostOneStop == Cardinality(stops) <= 1
OnePrimary == w > 0 => Cardinality(prim) = 1
IndInv == /\ n >= 0 /\ w >= 0
          /\ \A j \in stops : j >= 1 /\ j <= n
          /\ \A j \in prim : j >= 1 /\ j <= w
          /\ AtMostOneStop /\ OnePrimary
=============================================================================
