------------------------------ MODULE MC_Zemax ------------------------------
(* Model-checking / generation instances of Zemax: value grids.  Numbers are  *)
(* integers in units of 1/1024; each is written to the file as the decimal    *)
(* literal of v/1024, which is exact (at most ten binary places).  Every      *)
(* curvature on the grids is +-2^k/1024, so the denoted radius 1024*1024/c is *)
(* an integer and the reader's float division 1/c is exact too.               *)
EXTENDS Zemax
MCU == 1024
\* ---- header grids
SeqOnly == {"SEQ"}
BothModes == {"SEQ", "NSC"}
Ap3 == {<<"ENPD", 8192>>, <<"FNUM", 4096>>, <<"OBNA", 128>>}          \* 8.0, 4.0, 0.125
Ap6 == Ap3 \cup {<<"ENPD", 2560>>, <<"FNUM", 1536>>, <<"OBNA", 320>>}
ApE == {<<"ENPD", 8192>>}
NoGcat == {<<>>}
Gcat3 == {<<>>, <<"SCHOTT">>, <<"HIKARI", "SCHOTT">>}
Gcat5 == Gcat3 \cup {<<"OHARA">>, <<"SCHOTT", "OHARA", "HIKARI">>}
FtAngle == {0}
FtBoth == {0, 1}
FP1 == {<<0, 0>>}
FP2 == {<<0, 0>>, <<0, 5120>>}                                         \* (0,0), (0,5)
FP3 == {<<0, 0>>, <<0, 5120>>, <<-3072, 0>>}
FP4 == {<<0, 0>>, <<0, 5120>>, <<0, 2560>>, <<-3072, 0>>}
FP6 == FP4 \cup {<<3072, 0>>, <<1024, -7168>>}
Pad0 == {0}
Pad01 == {0, 1}
Pad02 == {0, 2}
W2 == {512, 640}                                                       \* 0.5, 0.625 um
W4 == {512, 640, 448, 1024}
PwAfter == {FALSE}
PwBoth == {TRUE, FALSE}
\* ---- surface grids
StdOnly == {"STANDARD"}
BothTypes == {"STANDARD", "EVENASPH"}
TypeReq == {FALSE}
TypeMaybe == {TRUE, FALSE}
C1 == {32}
C2 == {0, 32}                                                          \* plane, R = 32
C3 == {0, 32, -64}                                                     \* ... R = -16
C5 == {0, 32, -64, 8, -256}                                            \* ... R = 128, R = -4
T1 == {4096}
T2 == {4096, 512}                                                      \* 4.0, 0.5
T4 == {4096, 512, 0, -2048}
ObjInf == {INF}
Obj2 == {INF, 102400}                                                  \* infinity, 100.0
K1 == {-512}
K2 == {-512, 1024}
NoneAtAll == {}
\* PARM rows: values of PARM 1..Len, the coefficient of r^(2n) in units of 1/1024
RowFull  == <<0, 1, -2, 0, 0, 0, 0, 3>>
RowFull2 == <<5, 0, 0, 7, 0, -1, 0, 0>>
RowZero  == <<0, 0, 0, 0, 0, 0, 0, 0>>
RowShort == <<4, -1, 0, 2>>                                            \* PARM 5..8 not written: they are 0
Rows1 == {RowFull}
Rows2 == {RowFull, RowShort}
Rows4 == {RowFull, RowFull2, RowZero, RowShort}
RowsFullOnly == {RowFull, RowFull2, RowZero}
Gl(n, nd, vd) == [name |-> n, nd |-> nd, vd |-> vd, bare |-> FALSE]
GlBare(n) == [name |-> n, nd |-> 0, vd |-> 0, bare |-> TRUE]
GNSF11 == Gl("N-SF11", 1828, 26368)                                    \* 1.78515625, 25.75
GF2    == Gl("F2", 1659, 37376)                                        \* 1.6201171875, 36.5
GSF6   == Gl("SF6", 1848, 26112)                                       \* 1.8046875, 25.5
GQQ    == Gl("QQGLASS1", 1536, 65536)                                  \* 1.5, 64.0 - in no catalogue
GBLANK == Gl("___BLANK", 1664, 51200)                                  \* 1.625, 50.0 - Zemax model glass
GBAL   == GlBare("L-BAL35")
G0 == {}
GQ == {GQQ}
G2 == {GNSF11, GQQ}
G3 == {GNSF11, GQQ, GF2}
G6 == {GNSF11, GQQ, GF2, GSF6, GBLANK, GBAL}
NoNoise == {}
Noise2 == {Ln("UNIT", <<"MM", "X", "W", "X", "CM", "MR", "CPMM">>, <<>>), Ln("COMM", <<"STOP">>, <<>>)}
Noise4 == {Ln("UNIT", <<"MM", "X", "W", "X", "CM", "MR", "CPMM">>, <<>>),
           Ln("COMM", <<"STOP">>, <<>>),              \* a comment that mentions a keyword
           Ln("DIAM", <<>>, <<6912, 1, 0, 0, 1>>),
           Ln("", <<>>, <<>>)}                        \* blank line
\* ---- the glass catalogue as far as the names above go (checked against the
\* ---- database directory by the driver before anything is judged)
MCCatalogue == {<<"SCHOTT", "N-SF11">>, <<"SCHOTT", "F2">>, <<"HIKARI", "F2">>, <<"CDGM", "F2">>,
                <<"SCHOTT", "SF6">>, <<"HIKARI", "SF6">>, <<"OHARA", "L-BAL35">>}
=============================================================================
