SPECIFICATION Spec
CONSTANTS
  Presc <- MCPresc
  Calls <- MCCalls
  Lib <- MCLib
  Hazard = "stale_record"
  Depth = 6
CONSTRAINT LevelBound
INVARIANT Clean

CHECK_DEADLOCK FALSE
