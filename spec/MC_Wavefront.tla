---------------------------- MODULE MC_Wavefront ----------------------------
(* Design-level check of spec/Wavefront.tla: exact rational geometries are   *)
(* built inside TLA+ (every rational p/q is taken to 60 fractional bits,     *)
(* i.e. "nearest-float witnesses"), the law must accept them and reject      *)
(* perturbed variants with the expected clause.  Every case is one state.    *)
(*                                                                           *)
(* focus    a perfect imaging system: every ray meets the chief image point  *)
(*          C with the same optical path K  =>  t = R, OPD = 0.  Variant     *)
(*          "plane": object at infinity, oblique plane wave; the launch      *)
(*          points lie on a plane z = const, so a ray launched h higher      *)
(*          starts n0 h sin(theta) ahead of the wavefront and a perfect      *)
(*          system gives it o = K - n0 h sin(theta).                         *)
(* defocus  a perfect spherical wave converging to F = C + (0, 0, delta) on  *)
(*          the axis, observed on the image plane through C.  With the ray   *)
(*          direction (0, s, c) (Pythagorean) and (R, delta s, r) another    *)
(*          Pythagorean triple, everything is rational:                      *)
(*            P = C - (0, delta s / c, 0),  o = K - n delta / c,             *)
(*            t = r - delta s^2 / c,  chief: oc = K - n delta, tc = R,       *)
(*            OPD lambda = n (delta/c - delta - R + t)                       *)
EXTENDS Wavefront, TLC, FiniteSets

\* p/q to 60 fractional bits (|p|, q < 2^30)
RECURSIVE FracBits(_, _, _)
FracBits(r, q, k) == IF k > 60 \/ r = 0 THEN DZero
                     ELSE IF 2 * r >= q THEN DAdd(DShift(DOne, -k), FracBits(2 * r - q, q, k + 1))
                     ELSE FracBits(2 * r, q, k + 1)
DQ(p, q) == LET ap == IF p < 0 THEN -p ELSE p
                v  == DAdd(DInt(ap \div q), FracBits(ap % q, q, 1))
            IN  IF p < 0 THEN DNeg(v) ELSE v
ASSUME DQ(3, 4) = DShift(DInt(3), -2) /\ DQ(-7, 2) = DShift(DInt(-7), -1) /\ DQ(0, 5) = DZero
ASSUME Small(DSub(DMul(DQ(1, 3), DInt(3)), DOne), DOne, 59)

CONSTANT Full        \* TRUE: the whole grid (thorough tier); FALSE: a sub-grid (quick tier)
Triples == IF Full THEN { <<3, 4, 5>>, <<4, 3, 5>>, <<5, 12, 13>>, <<12, 5, 13>>, <<8, 15, 17>>, <<15, 8, 17>>,
                          <<7, 24, 25>>, <<20, 21, 29>>, <<21, 20, 29>>, <<9, 40, 41>> }          \* <<sin, cos, hyp>>
           ELSE { <<3, 4, 5>>, <<12, 5, 13>>, <<8, 15, 17>>, <<21, 20, 29>>, <<9, 40, 41>> }
Spheres == { <<221, 21, 220>>, <<145, 17, 144>>, <<85, 13, 84>>, <<113, 15, 112>> }     \* <<R, delta s, root>>
Indices == { <<1, 1>>, <<4, 3>>, <<3, 2>> }
Lambdas == { <<1, 2>>, <<5, 8>> }                                                    \* micrometres
Heights == { -3, 1, 2 }

V3(a, b, c) == <<a, b, c>>
Base == [kind |-> "ray", full |-> TRUE, chief |-> FALSE, fan |-> <<0, 0, DZero, DZero>>,
         irep |-> DOne, iown |-> DOne, ztol |-> DZero]

\* ---- perfect focus ---------------------------------------------------------
\* C = (0, yc, 300) with (yc, D, R) = m (3, 4, 5) or yc = 0;  X = (0, 0, 300 - D)
FocusEvent(c) ==
  LET s  == DQ(c.tr[1], c.tr[3])
      cc == DQ(c.tr[2], c.tr[3])
      s0 == DQ(c.t0[1], c.t0[3])
      c0 == DQ(c.t0[2], c.t0[3])
      yc == IF c.off THEN 30 ELSE 0
      D  == IF c.off THEN 40 ELSE 50
      n  == DQ(c.n[1], c.n[2])
      n0 == DQ(c.n0[1], c.n0[2])
      K  == DInt(777)
      h  == DInt(c.h)
  IN  Base @@
      [C |-> V3(DZero, DInt(yc), DInt(300)), dc |-> V3(DZero, s0, c0), oc |-> K, tc |-> DInt(50),
       pc0 |-> V3(DZero, DInt(-5), DInt(-20)), d0c |-> V3(DZero, s0, c0),
       zi |-> DInt(300), xpl |-> DInt(-D),
       P |-> V3(DZero, DInt(yc), DInt(300)), d |-> V3(DZero, DNeg(s), cc),
       o |-> IF c.plane THEN DSub(K, DMul(n0, DMul(h, s0))) ELSE K, t |-> DInt(50),
       p0 |-> IF c.plane THEN V3(DZero, DInt(c.h - 5), DInt(-20)) ELSE V3(DZero, DInt(-5), DInt(-20)),
       d0 |-> IF c.plane THEN V3(DZero, s0, c0) ELSE V3(DZero, DNeg(s), cc),
       nimg |-> n, nobj |-> n0, lam |-> DQ(c.lam[1], c.lam[2]), inf |-> c.plane, opd |-> DZero]
FTriples == IF Full THEN { <<3, 4, 5>>, <<4, 3, 5>>, <<12, 5, 13>>, <<8, 15, 17>>, <<20, 21, 29>>, <<9, 40, 41>> }
            ELSE { <<4, 3, 5>>, <<8, 15, 17>>, <<9, 40, 41>> }
FocusCases ==
  { [fam |-> "focus", tr |-> tr, t0 |-> t0, off |-> off, n |-> n, n0 |-> <<1, 1>>, lam |-> <<1, 2>>, plane |-> FALSE, h |-> 2] :
    tr \in FTriples, t0 \in {<<3, 4, 5>>, <<5, 12, 13>>, <<0, 1, 1>>}, off \in BOOLEAN, n \in Indices }
  \cup
  { [fam |-> "focus", tr |-> tr, t0 |-> t0, off |-> off, n |-> n, n0 |-> n0, lam |-> <<5, 8>>, plane |-> TRUE, h |-> h] :
    tr \in FTriples, t0 \in {<<3, 4, 5>>, <<5, 12, 13>>, <<0, 1, 1>>}, off \in BOOLEAN, n \in {<<1, 1>>, <<3, 2>>},
    n0 \in {<<1, 1>>, <<4, 3>>}, h \in {-3, 2} }
FocusOK(c) ==
  LET e == FocusEvent(c) IN
  /\ JudgeSample(e) = {}
  /\ JudgeSample([e EXCEPT !.chief = TRUE]) = {}
  /\ "opd_value" \in JudgeSample([e EXCEPT !.opd = DShift(DOne, -10)])              \* 0.001 waves
  /\ "chief_zero" \in JudgeSample([e EXCEPT !.chief = TRUE, !.opd = DShift(DOne, -60)])
  /\ JudgeSample([e EXCEPT !.chief = TRUE, !.opd = DShift(DOne, -60), !.full = FALSE]) = {"chief_zero"}
  /\ JudgeSample([e EXCEPT !.opd = DOne, !.full = FALSE]) = {}                      \* vignetted: silent
  \* an iterative surface with tol = 2^-33 mm (1.2e-10) in glass: |OPD| lambda <= 1000 ztol
  /\ "chief_zero" \notin JudgeSample([e EXCEPT !.chief = TRUE, !.opd = DShift(DOne, -22), !.ztol = DShift(DInt(3), -33)])
  /\ "chief_zero" \in JudgeSample([e EXCEPT !.chief = TRUE, !.opd = DShift(DOne, -18), !.ztol = DShift(DInt(3), -33)])
  /\ "root_certificate" \in JudgeSample([e EXCEPT !.t = DInt(-50)])                 \* the cap behind the image
  /\ "sphere_certificate" \in JudgeSample([e EXCEPT !.t = DQ(50001, 1000)])
  /\ "sphere_certificate" \in JudgeSample([e EXCEPT !.C = V3(DZero, DAdd(@[2], DShift(DOne, -3)), @[3])])
  /\ "unit" \in JudgeSample([e EXCEPT !.d = V3(DZero, @[2], DOne)])
  /\ "intensity" \in JudgeSample([e EXCEPT !.irep = DZero])
  \* oblique plane wave: dropping the tilt term, or giving it the wrong sign, must be noticed
  /\ (c.plane /\ c.t0[1] # 0) =>
        /\ "opd_value" \in JudgeSample([e EXCEPT !.o = e.oc])
        /\ "opd_value" \in JudgeSample([e EXCEPT !.d0 = V3(DZero, DNeg(@[2]), @[3]), !.d0c = V3(DZero, DNeg(@[2]), @[3])])
        /\ "object_wave" \in JudgeSample([e EXCEPT !.d0 = V3(DZero, DNeg(@[2]), @[3])])
        \* the object-space index multiplies the tilt term
        /\ (c.n0 # <<1, 1>> =>
              LET bad == [e EXCEPT !.o = DSub(e.oc, DMul(DInt(c.h), DQ(c.t0[1], c.t0[3])))] IN
              {"opd_value", "~explained:object_index_ignored"} \subseteq JudgeSample(bad))
  /\ (~c.plane) => "object_wave" \in JudgeSample([e EXCEPT !.p0 = V3(DZero, DInt(-4), DInt(-20))])

\* ---- defocused spherical wave ------------------------------------------------
DefocusNum(c) == LET S == c.tr[1]
                     Cc == c.tr[2]
                     H == c.tr[3]
                     h == c.sp[1]
                     a == c.sp[2]
                     b == c.sp[3] IN
                 a * H * (H - Cc) + (b - h) * S * Cc - a * S * S     \* (delta/c - delta - R + t) S Cc
DefocusEvent(c) ==
  LET S == c.tr[1]
      Cc == c.tr[2]
      H == c.tr[3]
      h == c.sp[1]
      a == c.sp[2]
      b == c.sp[3]
      n == DQ(c.n[1], c.n[2])
      K == DInt(1000)
      \* delta = a H / S;  delta/c = a H^2 / (S Cc);  delta s / c = a H / Cc;  delta s^2 / c = a S / Cc
      t == DSub(DInt(b), DQ(a * S, Cc))
  IN  Base @@
      [C |-> V3(DZero, DZero, DInt(400)), dc |-> V3(DZero, DZero, DOne),
       oc |-> DSub(K, DMul(n, DQ(a * H, S))), tc |-> DInt(h),
       pc0 |-> V3(DZero, DZero, DInt(-10)), d0c |-> V3(DZero, DZero, DOne),
       zi |-> DInt(400), xpl |-> DInt(-h),
       P |-> V3(DZero, DQ(-a * H, Cc), DInt(400)), d |-> V3(DZero, DQ(S, H), DQ(Cc, H)),
       o |-> DSub(K, DMul(n, DQ(a * H * H, S * Cc))), t |-> t,
       p0 |-> V3(DZero, DZero, DInt(-10)), d0 |-> V3(DZero, DQ(S, H), DQ(Cc, H)),
       nimg |-> n, nobj |-> DOne, lam |-> DQ(c.lam[1], c.lam[2]), inf |-> FALSE,
       \* OPD = 1000 n (delta/c - delta - R + t) / lambda   as ONE rational
       opd |-> DQ(1000 * c.n[1] * c.lam[2] * DefocusNum(c), c.n[2] * c.lam[1] * S * Cc)]
DefocusCases == { [fam |-> "defocus", tr |-> tr, sp |-> sp, n |-> n, lam |-> l] :
                  tr \in Triples, sp \in Spheres, n \in Indices, l \in Lambdas }
DefocusOK(c) ==
  LET e == DefocusEvent(c)
      S == c.tr[1]
      Cc == c.tr[2] IN
  /\ JudgeSample(e) = {}
  /\ e.opd # DZero
  /\ "opd_value" \in JudgeSample([e EXCEPT !.opd = DNeg(@)])                         \* sign flipped
  /\ "opd_value" \in JudgeSample([e EXCEPT !.opd = DAdd(@, DShift(DOne, -10))])
  \* the other root t' = 2 (u.d) - t = -r - delta s^2 / c
  /\ {"root_certificate"} = JudgeSample([e EXCEPT !.t = DSub(DInt(-c.sp[3]), DQ(c.sp[2] * S, Cc))]) \ {"opd_value"}
  \* sphere centred on the focus F instead of the chief image point: seen from F the wave is perfect,
  \* OPD = 0 would be reported; the law (centre C) rejects that value
  /\ "opd_value" \in JudgeSample([e EXCEPT !.opd = DZero])
  \* ... and a centre shifted along y with unchanged certificates is not on the sphere
  /\ "sphere_certificate" \in JudgeSample([e EXCEPT !.C = V3(DZero, DShift(DOne, -4), @[3])])
  \* geometric instead of optical path from the image surface to the sphere
  /\ (c.n # <<1, 1>> =>
        LET bad == [e EXCEPT !.opd = DQ(1000 * c.lam[2] * (c.n[1] * c.sp[2] * c.tr[3] * (c.tr[3] - Cc)
                                                           + c.n[2] * ((c.sp[3] - c.sp[1]) * S * Cc - c.sp[2] * S * S)),
                                        c.n[2] * c.lam[1] * S * Cc)] IN
        {"opd_value", "~explained:image_index_ignored"} \subseteq JudgeSample(bad))
  \* exit pupil so close that the image point is not well inside the sphere: not judged
  /\ "~image_point_near_sphere" \in JudgeSample([e EXCEPT !.xpl = DInt(-1), !.tc = DOne])

\* ---- statistics -----------------------------------------------------------------
Q4(x) == DShift(DInt(x), -2)
StatOK ==
  /\ JudgeRms([opds |-> <<Q4(3), Q4(-3), Q4(3), Q4(-3)>>, val |-> Q4(3)]) = {}
  /\ JudgeRms([opds |-> <<DInt(3), DInt(4), DZero, DZero>>, val |-> Q4(10)]) = {}
  /\ JudgeRms([opds |-> <<DInt(3), DInt(4), DZero, DZero>>, val |-> Q4(-10)]) = {"rms"}
  /\ JudgeRms([opds |-> <<DOne, DOne, DOne, DOne>>, val |-> DOne]) = {}
  /\ JudgeRms([opds |-> <<DOne, DOne, DOne, DOne>>, val |-> DZero]) = {"rms"}     \* RMS about the mean is not it
  /\ JudgeRms([opds |-> <<DZero, DZero>>, val |-> DZero]) = {}
  /\ JudgeRms([opds |-> <<DOne, NaN>>, val |-> DOne]) = {"~opd_not_finite"}
  /\ JudgeOpdiff([opds |-> <<DInt(1), DInt(2), DInt(3), DInt(6)>>, ws |-> <<DOne, DOne, DOne, DOne>>, val |-> Q4(6)]) = {}
  /\ JudgeOpdiff([opds |-> <<DInt(1), DInt(2), DInt(3), DInt(6)>>, ws |-> <<DOne, DOne, DOne, DOne>>, val |-> Q4(7)]) = {"opd_difference"}
  /\ JudgeOpdiff([opds |-> <<DInt(1), DInt(2), DInt(3), DInt(6)>>, ws |-> <<Q4(1), Q4(2), Q4(2), Q4(1)>>, val |-> Q4(1)]) = {"opd_difference"}
  \* weights (1/4, 1/2, 1/2, 1/4): deviations 2, 1, 0, 3 -> (0.5 + 0.5 + 0 + 0.75) / 4 = 7/16
  /\ JudgeOpdiff([opds |-> <<DInt(1), DInt(2), DInt(3), DInt(6)>>, ws |-> <<Q4(1), Q4(2), Q4(2), Q4(1)>>,
                  val |-> DShift(DInt(7), -4)]) = {}
  /\ JudgeOpdiff([opds |-> <<DInt(5), DInt(5)>>, ws |-> <<DOne, DOne>>, val |-> DZero]) = {}
\* fans: 5 points -> -1, -1/2, 0, 1/2, 1 ; y fan first
FanOK ==
  /\ \A k \in 0..4 : FanSample(<<5, k, DZero, DShift(DInt(k - 2), -1)>>)
  /\ \A k \in 5..9 : FanSample(<<5, k, DShift(DInt(k - 7), -1), DZero>>)
  /\ ~FanSample(<<5, 1, DShift(DInt(-1), -1), DZero>>)                 \* x and y fans swapped
  /\ ~FanSample(<<5, 1, DZero, DShift(DInt(1), -1)>>)
  /\ FanSample(<<4, 1, DZero, DQ(-1, 3)>>) /\ ~FanSample(<<4, 1, DZero, DQ(-1, 4)>>)
ASSUME StatOK
ASSUME FanOK
ASSUME PrintT(<<"COUNTS", Cardinality(FocusCases), Cardinality(DefocusCases)>>)

--------------------------------------------------------------------------
Cases == FocusCases \cup DefocusCases
Key(c) == IF c.fam = "focus" THEN <<c.fam, c.tr, c.off, c.t0>> ELSE <<c.fam, c.tr, c.sp>>
Keys == {Key(c) : c \in Cases}
VARIABLE case
Init == case = [fam |-> "root"]
Next == \/ /\ case.fam = "root"
           /\ \E k \in Keys : case' = [fam |-> "bucket", key |-> k]
        \/ /\ case.fam = "bucket"
           /\ \E c \in Cases : Key(c) = case.key /\ case' = c
Spec == Init /\ [][Next]_case
ModelOK == CASE case.fam = "focus" -> FocusOK(case)
             [] case.fam = "defocus" -> DefocusOK(case)
             [] OTHER -> TRUE
=============================================================================
