------------------------------- MODULE Launch -------------------------------
(* C03: how a real ray is launched for a requested normalised field (Hx, Hy)    *)
(* and pupil coordinate (Px, Py), stated from the property text and textbook    *)
(* first-order optics, not from the code.                                      *)
(*                                                                            *)
(* Part A  decision table over aperture type x field type x object distance   *)
(*         x telecentric flag: which of the 24 combinations must be rejected   *)
(*         with an error, which must be traced; a two-action state machine     *)
(*         (Launch / RaiseError) whose totality and determinism MC_Launch      *)
(*         checks on every cell.                                               *)
(* Part B  launch relations for accepted calls: polynomial (in)equalities      *)
(*         between the recorded object-surface record of one ray and the       *)
(*         requested coordinates, evaluated exactly on dyadic numbers; no      *)
(*         division, no square root.  tan(field angle) enters as a logged      *)
(*         certificate that is validated here by a rigorous polynomial         *)
(*         bracket (Taylor polynomial of tan with a remainder bound).          *)
(* Part C  pupil samplings: documented point counts as integer formulas, all   *)
(*         points inside the unit pupil, vignetting only shrinks.              *)
(*                                                                            *)
(* Conventions fixed here once (and cross-checked by C05's chief-ray limit):   *)
(*  - a positive field angle theta_y means the rays of that field travel       *)
(*    towards +y:  dy/dz = +tan(theta_y)  (they come from an object point      *)
(*    below the axis), so for a finite object with angular fields the object   *)
(*    point is at y = -tan(theta_y) (EPL - z_obj);                              *)
(*  - a positive object height is an object point at +y;                       *)
(*  - the property quantifies over Hy only: for Hx the magnitude of the x      *)
(*    slope is judged, its sign is only observed (the library uses             *)
(*    dx/dz = -tan(theta_x), pinned by tests/test_rays.py).                    *)
(*  - EPL is measured from the vertex of surface 1, which lies at z = 0.       *)
EXTENDS Vec, FiniteSets

--------------------------------------------------------------------------
(* Part A: decision table                                                     *)
ApTypes == {"EPD", "imageFNO", "objectNA"}
FieldTypes == {"angle", "object_height"}
Cells == [ap : ApTypes, ft : FieldTypes, inf : BOOLEAN, tel : BOOLEAN]

\* the reasons for which the model cannot represent a combination (property text)
Reasons(c) ==
  (IF c.ft = "object_height" /\ c.inf THEN {"height_field_with_infinite_object"} ELSE {}) \cup
  (IF c.tel /\ c.inf THEN {"telecentric_with_infinite_object"} ELSE {}) \cup
  (IF c.tel /\ c.ap = "EPD" THEN {"EPD_with_telecentric_object_space"} ELSE {}) \cup
  (IF c.tel /\ c.ap = "imageFNO" THEN {"imageFNO_with_telecentric_object_space"} ELSE {}) \cup
  (IF c.tel /\ c.ft = "angle" THEN {"angle_field_with_telecentric_object_space"} ELSE {})
\* an object-space numerical aperture with the object at infinity has no meaning (the cone angle
\* of a point at infinity is zero); the property neither demands an error nor a value for it
Unspecified(c) == Reasons(c) = {} /\ c.ap = "objectNA" /\ c.inf
Decision(c) == IF Reasons(c) # {} THEN "Reject" ELSE IF Unspecified(c) THEN "Unspecified" ELSE "Accept"

\* one call of the ray generator as a two-action machine
LaunchEnabled(c) == Decision(c) # "Reject"
ErrorEnabled(c) == Decision(c) # "Accept"
\* code -> spec: outcome of a recorded call ("rays" | "ValueError" | anything else)
JudgeCall(e) ==
  LET dec == Decision(e.cell) IN
  IF dec = "Reject" THEN (IF e.outcome = "ValueError" THEN {} ELSE {"not_rejected"})
  ELSE IF dec = "Accept" THEN (IF e.outcome = "rays" THEN {} ELSE {"raises"})
  ELSE (IF e.outcome \in {"rays", "ValueError"} THEN {} ELSE {"raises"})

--------------------------------------------------------------------------
(* Part B: launch relations                                                   *)
(* A ray event e:                                                             *)
(*   cell            the configuration (ap, ft, inf, tel)                      *)
(*   hasP, Px, Py    requested pupil coordinate (hasP = FALSE: not observable, *)
(*                   e.g. the points of a random sampling drawn inside trace)  *)
(*   Hx, Hy, F       requested normalised field, maximum field                 *)
(*   thx, thy        field angles in degrees (certificates for Hx F, Hy F)     *)
(*   rx, ry          the same in radians (certificates), tx, ty their tangents *)
(*   o, d            origin and direction recorded on the object surface       *)
(*   i, opd, w, wreq intensity, accumulated path, wavelength, requested wl     *)
(*   EPL, EPD        paraxial entrance pupil position and diameter as the      *)
(*                   library reports them (recorded data; C04 judges them)     *)
(*   zobj, zmin      object position (finite object); smallest vertex z of the *)
(*                   lens surfaces                                             *)
(*   NA, n0          aperture value and object-space index (telecentric)       *)
(*   vig             some vignetting factor of the lens is non-zero            *)
DB == 45                                        \* direction / aim residuals: 2^-45 of the term scale
PiLo == [k |-> "fin", s |-> 1, e |-> -48, m |-> <<1443, 10786, 1014, 201>>]      \* float(pi) < pi
PiHi == [k |-> "fin", s |-> 1, e |-> -51, m |-> <<11545, 4368, 8117, 1608>>]     \* next float  > pi
UpTol(x, bits) == DAdd(x, DShift(DAbs(x), -bits))
DnTol(x, bits) == DSub(x, DShift(DAbs(x), -bits))

\* th (degrees) is the requested fraction H of the maximum field F
AngleOK(th, H, F) == IsFin(th) /\ Small(DSub(th, DMul(H, F)), F, 50)
\* r is th degrees in radians:  180 r = th pi  with pi bracketed
RadOK(r, th) == /\ IsFin(r) /\ DSign(r) = DSign(th)
                /\ LET a == DMul(DInt(180), DAbs(r))
                       b == DAbs(th)
                   IN DLe(DnTol(DMul(b, PiLo), 48), a) /\ DLe(a, UpTol(DMul(b, PiHi), 48))
\* t = tan(r), |r| <= 1:  155925 tan a  in  [S(a), S(a) + 1024 a^13],
\*   S(a) = 155925 a + 51975 a^3 + 20790 a^5 + 8415 a^7 + 3410 a^9 + 1382 a^11
\* (Taylor coefficients 1, 1/3, 2/15, 17/315, 62/2835, 1382/155925 times 155925; every further
\* coefficient is positive and their sum is tan 1 - S(1)/155925 < 1024/155925)
TanS(a) == LET a2 == DTrunc(DSq(a))
               h5 == DAdd(DInt(3410), TMul(a2, DInt(1382)))
               h4 == DAdd(DInt(8415), TMul(a2, h5))
               h3 == DAdd(DInt(20790), TMul(a2, h4))
               h2 == DAdd(DInt(51975), TMul(a2, h3))
               h1 == DAdd(DInt(155925), TMul(a2, h2))
           IN TMul(a, h1)
TanR(a) == LET a2 == DTrunc(DSq(a))
               a4 == TMul(a2, a2)
               a12 == TMul(a4, TMul(a4, a4))
           IN DShift(TMul(a12, a), 10)
TanOK(t, r) == /\ IsFin(t) /\ DSign(t) = DSign(r)
               /\ LET a == DAbs(r)
                      b == DMul(DInt(155925), DAbs(t))
                  IN /\ DLe(a, DOne)
                     /\ DLe(DnTol(TanS(a), 48), b)
                     /\ DLe(b, UpTol(DAdd(TanS(a), TanR(a)), 48))
CertOK(e) == /\ AngleOK(e.thx, e.Hx, e.F) /\ AngleOK(e.thy, e.Hy, e.F)
             /\ RadOK(e.rx, e.thx) /\ RadOK(e.ry, e.thy)
             /\ TanOK(e.tx, e.rx) /\ TanOK(e.ty, e.ry)

RecFin(e) == VFin(e.o) /\ VFin(e.d)
UnitDir(e) == Small(DSub(Dot(e.d, e.d), DOne), DOne, DB)
\* the ray leaves the object towards the lens (surface 1 lies in +z of the launch point)
Forward(e) == DSign(e.d[3]) = 1

\* finite object, height fields: the ray starts on the object at (Hx, Hy) x maximum field
OriginHeight(e) == /\ Small(DSub(e.o[1], DMul(e.Hx, e.F)), e.F, 50)
                   /\ Small(DSub(e.o[2], DMul(e.Hy, e.F)), e.F, 50)
\* the ray starts on the object surface: the plane z = zobj, or (events that carry ocurved = TRUE)
\* the sphere of radius Robj through the vertex (0, 0, zobj), on the cap next to the vertex:
\*   x^2 + y^2 + s^2 = 2 Robj s,  s = o_z - zobj
OnObjectPlane(e) ==
  IF "ocurved" \in DOMAIN e /\ e.ocurved
  THEN LET s == DSub(e.o[3], e.zobj)
           r2 == DAdd(DSq(e.o[1]), DSq(e.o[2])) IN
       /\ Small(DSub(DAdd(r2, DSq(s)), DMul(DAdd(e.Robj, e.Robj), s)), DSq(e.Robj), 40)
       /\ DLe(DAbs(s), DAbs(e.Robj))
  ELSE e.o[3] = e.zobj
\* finite object, angular fields: the object point is where the line through the centre of the
\* entrance pupil with slope (.., tan theta_y) meets the object plane
OriginAngle(e) ==
  LET dz == DSub(e.EPL, e.zobj)
      sc == DMul(DAbs(dz), DAdd(DOne, DAdd(DAbs(e.tx), DAbs(e.ty))))
  IN /\ Small(DAdd(e.o[2], DMul(e.ty, dz)), sc, DB)
     /\ Small(DSub(DAbs(e.o[1]), DMul(DAbs(e.tx), DAbs(dz))), sc, DB)
\* infinite object, angular fields: every ray of the field has dy/dz = tan theta_y, |dx/dz| = |tan theta_x|
FieldDirY(e) == Small(DSub(e.d[2], DMul(e.ty, e.d[3])), DAdd(DOne, DAbs(e.ty)), DB)
FieldDirX(e) == Small(DSub(DAbs(e.d[1]), DMul(DAbs(e.tx), DAbs(e.d[3]))), DAdd(DOne, DAbs(e.tx)), DB)
StartsInObjectSpace(e) == DLe(e.o[3], e.zmin)

\* aim: the ray's line passes through A = (Px, Py) EPD/2 on the plane z = EPL
AimPoint(e) == <<DHalf(DMul(e.Px, e.EPD)), DHalf(DMul(e.Py, e.EPD)), e.EPL>>
Aim(e) == LET A == AimPoint(e)
              dp == V3Sub(A, e.o)
              c == Cross(dp, e.d)
              sc == DAdd(DAdd(Norm1(dp), Norm1(e.o)), Norm1(A))
          IN \A j \in 1..3 : Small(c[j], sc, 40)
\* where the ray's line meets the plane z = EPL, times N:  a = o N + (EPL - o_z) (L, M)
PupilHit(e) ==
  LET dz == DSub(e.EPL, e.o[3])
      t1 == <<DMul(e.o[1], e.d[3]), DMul(e.o[2], e.d[3])>>
      t2 == <<DMul(dz, e.d[1]), DMul(dz, e.d[2])>>
  IN [ax |-> DAdd(t1[1], t2[1]), ay |-> DAdd(t1[2], t2[2]),
      sx |-> DShift(DAdd(DAbs(t1[1]), DAbs(t2[1])), -42),      \* rounding slack (cancellation of the
      sy |-> DShift(DAdd(DAbs(t1[2]), DAbs(t2[2])), -42)]      \* field offset for infinite objects)
\* with vignetting factors the aim point only shrinks: |A_x| <= |Px| EPD/2, same sign
ShrinkOne(a, s, p, e) ==
  LET bound == DHalf(DMul(DMul(DAbs(p), DAbs(e.EPD)), DAbs(e.d[3]))) IN
  /\ DLe(DAbs(a), DAdd(UpTol(bound, 40), s))
  /\ (DLe(DAbs(a), s) \/ DSign(a) * DSign(e.d[3]) = DSign(p) * DSign(e.EPD))
AimShrinks(e) == LET h == PupilHit(e) IN
                 ShrinkOne(h.ax, h.sx, e.Px, e) /\ ShrinkOne(h.ay, h.sy, e.Py, e)
\* the aim point lies inside the entrance pupil  (|A| <= EPD/2)
AimInPupil(e) == LET h == PupilHit(e)
                     r2 == DShift(DMul(DSq(e.EPD), DSq(e.d[3])), -2)
                 IN DLe(DAdd(DSq(h.ax), DSq(h.ay)),
                        DAdd(UpTol(r2, 30), DAdd(DSq(DShift(h.sx, 2)), DSq(DShift(h.sy, 2)))))

\* telecentric object space: chief ray parallel to the axis, every ray inside the cone
\* n0 sin(theta) <= NA, rim rays (|P| = 1) on it, azimuth of the ray = azimuth of P
P2(e) == DAdd(DSq(e.Px), DSq(e.Py))
Sin2(e) == DMul(DSq(e.n0), DAdd(DSq(e.d[1]), DSq(e.d[2])))
TeleChief(e) == (e.Px = DZero /\ e.Py = DZero) => (e.d[1] = DZero /\ e.d[2] = DZero)
TeleCone(e) == DLe(Sin2(e), UpTol(DSq(e.NA), 40))
TeleRim(e) == Close(P2(e), DOne, 45) => Close(Sin2(e), DSq(e.NA), 40)
\* (a component of P below the rounding unit of the object height may be lost: sign 0 is admitted)
TeleSigns(e) == /\ DSign(e.d[1]) \in {0, DSign(e.Px)} /\ DSign(e.d[2]) \in {0, DSign(e.Py)}
TeleAzimuth(e) == /\ Small(DSub(DMul(e.d[1], e.Py), DMul(e.d[2], e.Px)), DOne, DB)
                  /\ TeleSigns(e)

Fails(ok, name) == IF ok THEN {} ELSE {name}
JudgeRay(e) ==
  LET c == e.cell IN
  IF Decision(c) # "Accept" THEN {"launched_from_rejected_cell"}
  ELSE IF ~RecFin(e) THEN {"non_finite_launch"}
  ELSE IF c.ft = "angle" /\ ~CertOK(e) THEN {"certificate"}
  ELSE
    Fails(UnitDir(e), "unit") \cup Fails(e.i = DOne, "intensity") \cup Fails(e.opd = DZero, "opd") \cup
    Fails(e.w = e.wreq, "wavelength") \cup Fails(Forward(e), "forward") \cup
    (IF ~c.inf THEN Fails(OnObjectPlane(e), "origin_on_object") ELSE {}) \cup
    (IF c.ft = "object_height" THEN Fails(OriginHeight(e), "origin_height")
     ELSE IF c.inf THEN Fails(FieldDirY(e), "field_angle_y") \cup Fails(FieldDirX(e), "field_angle_x") \cup
                        Fails(StartsInObjectSpace(e), "starts_in_object_space")
     ELSE Fails(OriginAngle(e), "origin_angle")) \cup
    (IF c.tel THEN
       (IF e.hasP THEN Fails(TeleCone(e), "tele_cone") \cup
                       (IF e.vig THEN Fails(TeleSigns(e), "tele_azimuth")
                        ELSE Fails(TeleChief(e), "tele_chief") \cup Fails(TeleRim(e), "tele_rim") \cup
                             Fails(TeleAzimuth(e), "tele_azimuth"))
        ELSE Fails(DLe(Sin2(e), UpTol(DSq(e.NA), 40)), "tele_cone"))
     ELSE
       Fails(AimInPupil(e), "aim_in_pupil") \cup
       (IF e.hasP THEN (IF e.vig THEN Fails(AimShrinks(e), "aim_shrinks") ELSE Fails(Aim(e), "aim"))
        ELSE {}))

--------------------------------------------------------------------------
(* Part C: pupil samplings                                                    *)
\* documented number of points for the argument n of generate_points
RECURSIVE SumTo(_)
SumTo(n) == IF n = 0 THEN 0 ELSE n + SumTo(n - 1)
HexCount(n) == 1 + 3 * n * (n + 1)                \* centre + rings of 6, 12, ..., 6 n points
HexByRings(n) == 1 + 6 * SumTo(n)
\* uniform: n x n grid x_i = -1 + 2 i / (n - 1) masked to the unit disk; with m = n - 1 the test
\* x_i^2 + x_j^2 <= 1 reads (2 i - m)^2 + (2 j - m)^2 <= m^2.  Points exactly on the circle
\* (Pythagorean grid points) are decided by float rounding: both counts are admissible.
UniformPts(n, strict) == LET m == n - 1 IN
  {ij \in (0..m) \X (0..m) : LET q == (2 * ij[1] - m) * (2 * ij[1] - m) + (2 * ij[2] - m) * (2 * ij[2] - m)
                             IN IF strict THEN q < m * m ELSE q <= m * m}
UniformClosed(n) == Cardinality(UniformPts(n, FALSE))
UniformOpen(n) == Cardinality(UniformPts(n, TRUE))
DistNames == {"line_x", "line_y", "positive_line_x", "positive_line_y", "random", "uniform",
              "hexapolar", "cross", "ring", "gaussian_quadrature", "gaussian_quadrature_symmetric"}
CountOK(name, n, cnt) ==
  CASE name \in {"line_x", "line_y", "positive_line_x", "positive_line_y", "random", "ring"} -> cnt = n
    [] name = "cross" -> cnt = 2 * n
    [] name = "hexapolar" -> cnt = HexCount(n)
    [] name = "uniform" -> n >= 2 /\ UniformOpen(n) <= cnt /\ cnt <= UniformClosed(n)
    [] name = "gaussian_quadrature" -> n \in 1..6 /\ cnt = 3 * n
    [] name = "gaussian_quadrature_symmetric" -> n \in 1..6 /\ cnt = n
    [] OTHER -> FALSE
InDisk(x, y) == DLe(DAdd(DSq(x), DSq(y)), DAdd(DOne, DShift(DOne, -50)))
\* a sampling event: name, n, cnt (= number of points, or of rays launched by optic.trace), and - when
\* pts - the points x, y (sequences)
JudgeDist(e) ==
  Fails(CountOK(e.name, e.n, e.cnt), "count") \cup
  (IF e.pts THEN Fails(Len(e.x) = e.cnt /\ Len(e.y) = e.cnt, "count_arrays") \cup
                 Fails(\A k \in 1..Len(e.x) : k <= Len(e.y) => InDisk(e.x[k], e.y[k]), "inside_unit_pupil")
   ELSE {})
\* vignetting: the sampling with factors (vx, vy) in [0, 1] against the same sampling without
ShrinkCoord(a, b) == DLe(DAbs(b), DAbs(a)) /\ DSign(b) \in {0, DSign(a)}
JudgeVig(e) ==
  Fails(Len(e.x1) = Len(e.x0) /\ Len(e.y1) = Len(e.y0) /\ Len(e.x0) = Len(e.y0), "vignetting_count") \cup
  Fails(\A k \in 1..Len(e.x0) : (k <= Len(e.x1) /\ k <= Len(e.y1)) =>
           ShrinkCoord(e.x0[k], e.x1[k]) /\ ShrinkCoord(e.y0[k], e.y1[k]), "vignetting_shrinks")

Judge(e) == CASE e.kind = "ray" -> JudgeRay(e)
              [] e.kind = "call" -> JudgeCall(e)
              [] e.kind = "dist" -> JudgeDist(e)
              [] e.kind = "vig" -> JudgeVig(e)
              [] OTHER -> {"unknown_event_kind"}
=============================================================================
