\* surfaces: every SURF block free (the image block included), minimal header
SPECIFICATION Spec
CONSTANTS
  U = 1024
  MinSurf = 1
  MaxSurf = 3
  Modes <- SeqOnly
  Apertures <- ApE
  GcatLists <- Gcat3
  FieldTypes <- FtAngle
  FieldPairs <- FP1
  MaxFld = 1
  PadFld <- Pad0
  Waves <- W2
  MaxWl = 1
  PadWl <- Pad0
  PwavFirst <- PwAfter
  Types <- BothTypes
  TypeOpt <- TypeReq
  Curvs <- C3
  Thicks <- T2
  ObjThicks <- Obj2
  Conics <- K1
  ParmRows <- Rows2
  Glasses <- G3
  ImageFree = TRUE
  Noise <- NoNoise
  MaxNoise = 0
  Catalogue <- MCCatalogue
  Export = FALSE
  ExportMod = 1
INVARIANT RejectsNSC
INVARIANT FinishTotal
INVARIANT GridExact
INVARIANT SurfaceCount
INVARIANT RadiusLaw
INVARIANT VertexLaw
INVARIANT ConicLaw
INVARIANT ParmLaw
INVARIANT StopLaw
INVARIANT MediumLaw
INVARIANT WaveLaw
INVARIANT FieldLaw
INVARIANT ApertureLaw
PROPERTY UnknownStutters
PROPERTY BlockFrame
PROPERTY SurfPushes
CHECK_DEADLOCK FALSE
