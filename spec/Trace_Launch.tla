---------------------------- MODULE Trace_Launch ----------------------------
(* Trace validation for C03: recorded launches ("ray": the object-surface      *)
(* record of one ray after optic.trace / optic.trace_generic together with     *)
(* what was requested), recorded call outcomes per configuration cell ("call"), *)
(* recorded pupil samplings ("dist") and vignetted samplings ("vig") are       *)
(* consumed one per step and judged by the clauses of Launch in exact dyadic   *)
(* arithmetic.  Verdicts are total: a bad event names its failing clauses.     *)
EXTENDS Launch, Json, IOUtils, TLC
Trace == JsonDeserialize(IOEnv.TRACE_FILE)
VARIABLES l
Init == l = 0
Next == /\ l < Len(Trace)
        /\ LET e == Trace[l + 1] IN PrintT(<<"V", e.id, Judge(e)>>)
        /\ l' = l + 1
Spec == Init /\ [][Next]_l
Done == TLCGet("stats").diameter - 1 = Len(Trace) /\ PrintT(<<"DONE", Len(Trace)>>)
=============================================================================
