SPECIFICATION SpecTable
CONSTANT MaxN = 1
INVARIANTS Total Deterministic Terminal OutcomeAllowed AsStated TableCounts CallJudge
CHECK_DEADLOCK FALSE
