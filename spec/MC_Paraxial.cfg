SPECIFICATION Spec
CONSTANTS
  Counts = {1, 2}
  RadCodes = {0, 8, 108, 16}
  MedCodes = {1, 2, 3, 4}
  ThkCodes = {1, 4}
  AspCodes = {0}
  Cfgs = {1, 2, 3, 4, 5, 6, 7, 8}
INVARIANTS DetThm MatrixForms MatrixIsTrace ReverseRay LagrangeThm ModelSatisfiesLaws LawsNotVacuous
CHECK_DEADLOCK FALSE
