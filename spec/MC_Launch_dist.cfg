SPECIFICATION SpecDist
CONSTANT MaxN = 48
INVARIANTS HexFormula UniformFormula KnownCounts VigGrid VigJudge DiskJudge
CHECK_DEADLOCK FALSE
