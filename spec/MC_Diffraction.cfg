SPECIFICATION Spec
CONSTANT Tier = "thorough"
INVARIANTS Parseval PsfLe100 StrehlLe1 CentreIsSumP EnergyPhaseFree PhaseLowersCentre PeakAtCentre PadImmaterial
           WienerKhinchin WitnessAccepted PerturbedRejected PiOK ArccosCert CutOff MasksOK
CHECK_DEADLOCK FALSE
