--------------------------- MODULE Trace_Paraxial ---------------------------
(* Trace validation for C04: every event is one lens (as the public API        *)
(* reports it) together with what the implementation returned for it -         *)
(* accessor values, the marginal_ray() / chief_ray() arrays and auxiliary       *)
(* paraxial rays obtained from the implementation's own generic trace.  The     *)
(* relations of Paraxial (Part 2) are evaluated on these numbers in exact       *)
(* dyadic arithmetic: nothing is divided, nothing is recomputed in floating     *)
(* point, the auxiliary rays are data that must themselves satisfy the          *)
(* refraction / transfer relations before anything is concluded from them.      *)
EXTENDS DyadicFast, Json, IOUtils, TLC, SequencesExt
BITS == 36            \* relative tolerance 2^-36 of the term scale (float64 noise is ~2^-50)
NoDiv(a, b) == NaN    \* Part 1 of Paraxial (matrix oracle) is not used here
DNear(a, b, t) == IsFin(a) /\ IsFin(b) /\ FSmall(FSub(a, b), t, BITS)
DTiny(a, t) == FSmall(a, t, 30)
DPos(a) == DSign(a) = 1
INSTANCE Paraxial WITH Add <- FAdd, Sub <- FSub, Mul <- FMul, Div <- NoDiv, Neg <- DNeg,
                       Abs <- DAbs, I <- DInt, Num <- IsFin, Near <- DNear, Tiny <- DTiny, Pos <- DPos
Trace == JsonDeserialize(IOEnv.TRACE_FILE)
VARIABLES l
Init == l = 0
Next == /\ l < Len(Trace)
        /\ LET e == Trace[l + 1]
               v == SetToSeq(Judge(e.L, e.X))
           IN \* TLC wraps long values over several lines: one short line per failing clause,
              \* <<"V", id, count>> and <<"V", -(128 id + j), "clause@surface">>
              /\ PrintT(<<"V", e.id, Len(v)>>)
              /\ \A j \in 1..Len(v) : PrintT(<<"V", -(128 * e.id + j), v[j][1] \o "@" \o ToString(v[j][2])>>)
        /\ l' = l + 1
Spec == Init /\ [][Next]_l
Done == TLCGet("stats").diameter - 1 = Len(Trace) /\ PrintT(<<"DONE", Len(Trace)>>)
=============================================================================
