SPECIFICATION Spec
CONSTANTS
  Presc <- MCPresc
  Calls <- MCCalls
  Lib <- MCLib
  Hazard = "query_edits"
  Depth = 6
CONSTRAINT LevelBound
INVARIANT Clean

CHECK_DEADLOCK FALSE
