----------------------------- MODULE DyadicFast -----------------------------
(* Faster addition, multiplication and tolerance tests on the exact dyadic numbers of Dyadic.  *)
(* Same values as DAdd / DSub / DMul / Small - MC_DyadicFast checks that on a grid -   *)
(* but (a) exponents are aligned by a limb shift and one single-limb product    *)
(* instead of a multi-limb multiplication by 2^k, and (b) a tolerance test       *)
(*      |r| <= 2^-bits * (|t1| + ... + |tn|)                                     *)
(* first compares binary orders of magnitude (integers) and only evaluates the   *)
(* exact inequality when that is not already decisive.  Used by the trace specs  *)
(* of C04 / C08, where one event needs several thousand additions.              *)
EXTENDS Dyadic
FShlM(a, k) == IF a = <<>> \/ k = 0 THEN a ELSE Trim(RowM(a, 2^(k % 14), k \div 14))
LOCAL FAddFin(a, b) ==
   IF a.s = 0 THEN b ELSE IF b.s = 0 THEN a ELSE
   LET e  == IF a.e < b.e THEN a.e ELSE b.e
       am == FShlM(a.m, a.e - e)
       bm == FShlM(b.m, b.e - e)
   IN  IF a.s = b.s THEN Fin(a.s, e, AddM(am, bm))
       ELSE LET c == CmpM(am, bm) IN
            IF c = 0 THEN DZero ELSE IF c > 0 THEN Fin(a.s, e, SubM(am, bm)) ELSE Fin(b.s, e, SubM(bm, am))
FAdd(a, b) == IF IsFin(a) /\ IsFin(b) THEN FAddFin(a, b) ELSE DAdd(a, b)
FSub(a, b) == FAdd(a, DNeg(b))
\* product by column sums: c_k = sum_{i+j=k+1} a_i b_j < min(la, lb) * 2^28 < 2^31 for min <= 7 limbs,
\* then one carry propagation (Dyadic!MulM propagates carries once per row)
RECURSIVE ColSum(_, _, _, _, _)
ColSum(a, b, k, i, hi) == IF i > hi THEN 0 ELSE a[i] * b[k + 1 - i] + ColSum(a, b, k, i + 1, hi)
FMulM(a, b) ==
  IF a = <<>> \/ b = <<>> THEN <<>>
  ELSE LET la == Len(a)
           lb == Len(b)
       IN IF la > 7 /\ lb > 7 THEN MulM(a, b)
          ELSE Trim(Carry([k \in 1..(la + lb - 1) |->
                             ColSum(a, b, k, IF k + 1 - lb > 1 THEN k + 1 - lb ELSE 1, IF k < la THEN k ELSE la)], 0))
FMul(a, b) == IF IsFin(a) /\ IsFin(b)
              THEN (IF a.s = 0 \/ b.s = 0 THEN DZero ELSE Fin(a.s * b.s, a.e + b.e, FMulM(a.m, b.m)))
              ELSE DMul(a, b)
\* keep the top 7 limbs (>= 85 significant bits): |FTrunc(a) - a| < 2^-84 |a|; products of truncated
\* numbers always take the column-sum path above
FTrunc(a) == IF IsFin(a) /\ Len(a.m) > 7
             THEN Fin(a.s, a.e + 14 * (Len(a.m) - 7), SubSeq(a.m, Len(a.m) - 6, Len(a.m)))
             ELSE a
FTMul(a, b) == FTrunc(FMul(a, b))
\* binary order of magnitude of a non-zero finite number: 2^(Mag - 1) <= |x| < 2^Mag
BitLen(d) == IF d >= 128 THEN (IF d >= 2048 THEN (IF d >= 8192 THEN 14 ELSE IF d >= 4096 THEN 13 ELSE 12)
                               ELSE IF d >= 512 THEN (IF d >= 1024 THEN 11 ELSE 10)
                               ELSE IF d >= 256 THEN 9 ELSE 8)
             ELSE IF d >= 8 THEN (IF d >= 32 THEN (IF d >= 64 THEN 7 ELSE 6) ELSE IF d >= 16 THEN 5 ELSE 4)
             ELSE IF d >= 4 THEN 3 ELSE IF d >= 2 THEN 2 ELSE 1
Mag(x) == x.e + 14 * (Len(x.m) - 1) + BitLen(x.m[Len(x.m)])
NoMag == -1000000
RECURSIVE MaxMag(_, _)        \* largest Mag among the non-zero entries of t[1..n]
MaxMag(t, n) == IF n = 0 THEN NoMag
                ELSE LET r == MaxMag(t, n - 1) IN
                     IF t[n].s = 0 THEN r ELSE LET g == Mag(t[n]) IN IF g > r THEN g ELSE r
AllFin(t) == \A i \in 1..Len(t) : IsFin(t[i])
RECURSIVE FSumAbs(_, _)
FSumAbs(t, n) == IF n = 0 THEN DZero ELSE FAdd(DAbs(t[n]), FSumAbs(t, n - 1))
\* |r| <= 2^-bits * sum |t[i]|      (t a sequence of at most 64 numbers)
FSmall(r, t, bits) ==
  /\ IsFin(r) /\ AllFin(t)
  /\ \/ r.s = 0
     \/ LET S == MaxMag(t, Len(t)) IN
        /\ S # NoMag
        /\ \/ Mag(r) <= S - 1 - bits                       \* |r| < 2^(S-1-bits) <= 2^-bits max |t|
           \/ /\ Mag(r) - 1 <= S + 6 - bits                \* otherwise |r| > 2^-bits * 64 * max |t|
              /\ DLe(DAbs(r), DShift(FSumAbs(t, Len(t)), -bits))
=============================================================================
