--------------------------- MODULE MC_DyadicFast ---------------------------
(* FAdd / FSub / FSmall agree with DAdd / DSub / Small on a grid of dyadic      *)
(* numbers with mantissas of 1..4 limbs and exponents far apart (one step per pair).    *)
EXTENDS DyadicFast, TLC
CONSTANT Tier          \* "quick": a sub-grid (961 pairs), otherwise the full grid (31 329 pairs)
VARIABLES a, b, ok
MantsAll == {<<1>>, <<3>>, <<16383>>, <<1, 5>>, <<16383, 16383>>, <<7, 0, 9>>, <<12345, 1, 0, 16000>>,
          <<16383, 16383, 16383, 16383>>}
Mants == IF Tier = "quick" THEN {<<3>>, <<1, 5>>, <<16383, 16383, 16383, 16383>>} ELSE MantsAll
Exps == IF Tier = "quick" THEN {-80, -14, 0, 13, 40} ELSE {-80, -31, -14, -1, 0, 3, 13, 14, 15, 40, 95}
Nums == {DZero} \cup {[k |-> "fin", s |-> s, e |-> e, m |-> m] : s \in {-1, 1}, e \in Exps, m \in Mants}
Canon(x) == Fin(x.s, x.e, x.m)          \* grid entries need not be canonical (even mantissas)
Check(x, y) ==
  [sum |-> FAdd(x, y) = DAdd(x, y),
   diff |-> FSub(x, y) = DSub(x, y),
   prod |-> /\ FMul(x, y) = DMul(x, y)
            /\ LET q == FMul(x, x) IN FMul(q, FMul(q, y)) = DMul(q, DMul(q, y)),
   trunc |-> LET q == FMul(FMul(x, x), FMul(y, y))
             IN FSmall(FSub(FTrunc(q), q), <<q>>, 84),
   small |-> \A bits \in {0, 5, 36} :
               FSmall(x, <<y, x, DOne>>, bits) = Small(x, DAdd(DAdd(DAbs(y), DAbs(x)), DOne), bits),
   mag |-> x.s # 0 => DLe(DShift(DOne, Mag(x) - 1), DAbs(x)) /\ DLt(DAbs(x), DShift(DOne, Mag(x)))]
\* one step per pair so that TLC's workers share the evaluation
Init == a \in Nums /\ b \in Nums /\ ok = <<>>
Next == ok = <<>> /\ ok' = Check(Canon(a), Canon(b)) /\ UNCHANGED <<a, b>>
Spec == Init /\ [][Next]_<<a, b, ok>>
SameSum == ok # <<>> => ok.sum
SameDiff == ok # <<>> => ok.diff
SameProd == ok # <<>> => ok.prod
SameSmall == ok # <<>> => ok.small
TruncOK == ok # <<>> => ok.trunc
MagOK == ok # <<>> => ok.mag
=============================================================================
