--------------------------- MODULE Trace_Optimizer ---------------------------
(* Trace validation for C14: recorded runs of the optimiser front ends of     *)
(* optiland (OptimizerGeneric, LeastSquares, DualAnnealing,                    *)
(* DifferentialEvolution with in-process and multi-process workers,            *)
(* CompensatorOptimizer.run) are consumed event by event.  The machine of      *)
(* spec/Optimizer.tla is carried over exact dyadic numbers: `st` holds the     *)
(* start vector and merit, the operand weights / targets, the logged           *)
(* evaluations and scipy's result of the current run; `pst` is the stack of    *)
(* projections pushed at Start and popped at Undo.  Evaluations in worker      *)
(* processes are not logged: nothing is required of them (the spec's           *)
(* nondeterminism), the clauses at "after" bind the lens to scipy's result     *)
(* whatever happened in between.                                               *)
(*                                                                            *)
(* events:  new | probe | merit | start | eval | return | reject | after | undo *)
(* Every event is judged; the verdict is the set of failing clause names.      *)
EXTENDS LensNear, Json, IOUtils, TLC, FiniteSets, SequencesExt
Trace == JsonDeserialize(IOEnv.TRACE_FILE)
VARIABLES l, st, pst
vars == <<l, st, pst>>
NoRun == [run |-> FALSE, ret |-> FALSE, x0 |-> <<>>, m0 |-> DZero, w |-> <<>>, t |-> <<>>,
          vars |-> <<>>, zmax |-> DOne, evs |-> <<>>, rx |-> <<>>, rf |-> DZero, envok |-> TRUE, success |-> TRUE]

AllFin(s) == \A i \in 1..Len(s) : IsFin(s[i])
\* the merit function: sum over operands of (weight * (value - target))^2
Merit(ops, w, t) == DSumSeq([i \in 1..Len(ops) |-> DSq(DMul(w[i], DSub(ops[i], t[i])))])
\* its noise floor when operand values carry 2^-40 relative rounding noise
\* (operand noise d = 2^-40 (|v|+|t|) changes (w (v - t))^2 by 2 w^2 |v - t| d + (w d)^2)
Floor(ops, w, t) == DAdd(DShift(DSumSeq([i \in 1..Len(ops) |-> DSq(DMul(w[i], Sum2(ops[i], t[i])))]), -80),
                         DShift(DSumSeq([i \in 1..Len(ops) |-> DMul(DSq(w[i]), DMul(DAbs(DSub(ops[i], t[i])), Sum2(ops[i], t[i])))]), -39))
NearM(a, b, floor) == /\ IsFin(a) /\ IsFin(b)
                      /\ DLe(DAbs(DSub(a, b)), DAdd(DShift(Sum2(a, b), -40), floor))
NearM30(a, b, floor) == /\ IsFin(a) /\ IsFin(b)
                        /\ DLe(DAbs(DSub(a, b)), DAdd(DShift(Sum2(a, b), -30), floor))
MeritIdentity(e) ==
  IF Len(e.ops) # Len(e.w) \/ Len(e.ops) # Len(e.t) THEN {"merit_identity"}
  ELSE IF AllFin(e.ops) THEN (IF Close(e.ss, Merit(e.ops, e.w, e.t), 44) THEN {} ELSE {"merit_identity"})
  ELSE (IF IsFin(e.ss) THEN {"merit_identity"} ELSE {})

\* absolute slack of a handle reading: thickness is a difference of vertices; the
\* scaled radius / thickness / index handles carry an additive offset of order 1
Unit(vtype, scaled, zmax) ==
  IF vtype = "thickness" THEN DAdd(DOne, zmax)
  ELSE IF scaled /\ vtype \in {"radius", "index"} THEN DInt(2) ELSE DZero
ReadsBack(v, x, vtype, scaled, zmax) ==
  v = x \/ Small(DSub(v, x), DAdd(DAbs(x), Unit(vtype, scaled, zmax)), 40)

--------------------------------------------------------------------------
(* Variable handle laws, on two readings (va, pa), (vb, pb) of handle value  *)
(* and physical quantity: get(set(v)) = v; a bound is the image of the        *)
(* physical limit under the same affine map that takes the physical quantity  *)
(* to the handle value:  (blo - va)(pb - pa) = (min - pa)(vb - va).            *)
SameUnits(bd, lim, e) ==
  LET dv == DSub(e.vb, e.va)
      dp == DSub(e.pb, e.pa)
      lhs == DMul(DSub(bd, e.va), dp)
      rhs == DMul(DSub(lim, e.pa), dv)
      scale == DAdd(DMul(Sum2(bd, e.va), DAbs(dp)), DMul(Sum2(lim, e.pa), DAbs(dv)))
  IN Small(DSub(lhs, rhs), scale, 34)
Probe(e) ==
  IF e.exc # "" THEN {"raises"} ELSE
  (IF ReadsBack(e.va, e.a, e.vtype, e.scaled, e.zmax) /\ ReadsBack(e.vb, e.b, e.vtype, e.scaled, e.zmax)
   THEN {} ELSE {"var_readback"}) \cup
  (IF e.pa # e.pb /\ IsFin(e.pa) /\ IsFin(e.pb) THEN {} ELSE {"var_moves"}) \cup
  (IF e.has_blo = e.has_min /\ e.has_bhi = e.has_max THEN {} ELSE {"bounds_none"}) \cup
  (IF /\ (e.has_blo /\ e.has_min) => SameUnits(e.blo, e.min, e)
      /\ (e.has_bhi /\ e.has_max) => SameUnits(e.bhi, e.max, e)
   THEN {} ELSE {"bounds_same_units"})

--------------------------------------------------------------------------
Start(e) == MeritIdentity(e)
Eval(s, e) ==
  (IF /\ e.ok /\ Len(e.vals) = Len(e.p) /\ Len(e.p) = Len(s.vars)
      /\ \A i \in 1..Len(e.p) : ReadsBack(e.vals[i], e.p[i], s.vars[i].vtype, s.vars[i].scaled, s.zmax)
   THEN {} ELSE {"callback_sets"}) \cup
  (IF Len(e.ops) # Len(s.w) THEN {"callback_merit"}
   ELSE IF AllFin(e.ops) THEN (IF Close(e.f, Merit(e.ops, s.w, s.t), 44) THEN {} ELSE {"callback_merit"})
   ELSE (IF IsFin(e.f) /\ DLe(s.m0, e.f) THEN {} ELSE {"callback_penalty"}))   \* undefined operand: a finite penalty, never better than the start
\* scipy's contract (the environment assumption of Optimizer.tla's Return step): the returned
\* objective is the value the callback gave at the returned point (some evaluation of it: the
\* objective depends on the path in its last bits).  Decidable only when every evaluation of
\* the run was logged in this process.
\* (when the evaluation log was truncated the recorder's own summary `match` is used)
EnvOK(s, e) == IF e.complete
               THEN (\E j \in 1..Len(s.evs) : s.evs[j].p = e.x)
                      => (\E j \in 1..Len(s.evs) : s.evs[j].p = e.x /\ (s.evs[j].f = e.fun \/ Close(s.evs[j].f, e.fun, 40)))
               ELSE e.match # "x_only"
Return(s, e) ==
  \* a run scipy itself reports as failed (e.g. L-BFGS-B "ABNORMAL" line search) may hand back
  \* a point together with the objective of another point: that is noted, not judged
  (IF EnvOK(s, e) THEN {} ELSE IF e.success THEN {"ret_fun_is_callback"} ELSE {"~scipy_failed_run_returned_inconsistent_pair"}) \cup
  (IF Len(e.x) = Len(s.x0) /\ AllFin(e.x) /\ IsFin(e.fun) THEN {} ELSE {"ret_shape"})

PickupsHold(e) ==
  IF \A j \in 1..Len(e.pk) :
       LET q == e.pk[j]
           want == DAdd(DMul(q.scale, q.sv), q.off) IN
       IF IsFin(want) /\ IsFin(q.tv)
       THEN Small(DSub(q.tv, want), DAdd(Sum2(want, q.tv), IF q.thick THEN e.zmax ELSE DZero), 44)
       ELSE q.tv = want
  THEN {} ELSE {"pickups_hold"}
SolvesHold(e) ==
  IF \A j \in 1..Len(e.sol) : IsFin(e.sol[j].y) /\ Small(DSub(e.sol[j].y, e.sol[j].h), Sum2(e.sol[j].h, e.sol[j].ymax), 30)
  THEN {} ELSE {"solves_hold"}

After(s, e) ==
  IF ~s.ret \/ Len(e.vars) # Len(s.rx) THEN {"after_without_return"} ELSE
  LET floor == IF AllFin(e.ops) THEN Floor(e.ops, e.w, e.t) ELSE DZero IN
  (IF \A i \in 1..Len(s.rx) : ReadsBack(e.vars[i].v, s.rx[i], e.vars[i].vtype, e.vars[i].scaled, e.zmax)
   THEN {} ELSE {"lens_at_returned"}) \cup
  \* (2^-30: the lens reaches the returned point through another history of thickness edits
  \*  and solves than scipy's evaluation did; measured path dependence 4e-12 relative)
  (IF ~s.envok \/ NearM30(e.ss, s.rf, floor) THEN {} ELSE {"merit_at_returned"}) \cup
  MeritIdentity(e) \cup
  \* not worse than the start - scipy's contract for a run it reports as successful (a failed run,
  \* e.g. an abnormal line search, may return its penalty value).  Slack 2^-26: least_squares moves
  \* a start lying on a bound strictly inside before evaluating (measured 1e-10 relative).
  (IF ~s.success \/ DLe(s.rf, DAdd(DAdd(s.m0, DShift(DAbs(s.m0), -26)), floor)) THEN {} ELSE {"not_worse"}) \cup
  (IF \A i \in 1..Len(e.vars) :
        LET r == e.vars[i]
            tol(lim) == DShift(DAdd(Sum2(lim, r.phys), Unit(r.vtype, FALSE, e.zmax)), -40) IN
        /\ r.has_min => DLe(DSub(r.min, tol(r.min)), r.phys)
        /\ r.has_max => DLe(r.phys, DAdd(r.max, tol(r.max)))
   THEN {} ELSE {"within_bounds"}) \cup
  PickupsHold(e) \cup SolvesHold(e)

--------------------------------------------------------------------------
(* undo(): the projection equals the one pushed at the Start being undone     *)
Undo(e) ==
  IF e.exc # "" THEN {"raises"} ELSE
  IF pst = <<>> THEN {"undo_without_run"} ELSE
  (IF NearProj(e.proj, pst[Len(pst)], DAdd(DOne, e.zmax)) THEN {} ELSE {"undo_restores"}) \cup
  PickupsHold(e) \cup SolvesHold(e)
\* a run the front end must refuse (global optimisers need bounds): the documented
\* exception, and the lens untouched
Reject(e) ==
  (IF e.expected THEN (IF e.exc = "ValueError" THEN {} ELSE {"reject_type"}) ELSE {"raises"}) \cup
  (IF pst # <<>> /\ e.proj = pst[Len(pst)] THEN {} ELSE {"reject_frame"})

Judge(e) ==
  CASE e.op = "new" -> {}
    [] e.op = "probe" -> Probe(e)
    [] e.op = "merit" -> MeritIdentity(e)
    [] e.op = "start" -> Start(e)
    [] e.op = "eval" -> IF st.run THEN Eval(st, e) ELSE {"eval_without_start"}
    [] e.op = "return" -> IF st.run THEN Return(st, e) ELSE {"return_without_start"}
    [] e.op = "reject" -> Reject(e)
    [] e.op = "after" -> After(st, e)
    [] e.op = "undo" -> Undo(e)
    [] OTHER -> {"unknown_op"}

Init == l = 0 /\ st = NoRun /\ pst = <<>>
Next == /\ l < Len(Trace)
        /\ LET e == Trace[l + 1] IN
             \* one short line per failing clause (TLC wraps long values):
             \* <<"V", id, count>> and <<"V", -(64 id + j), "clause">>
             /\ LET v == SetToSeq(Judge(e)) IN
                  /\ PrintT(<<"V", e.id, Len(v)>>)
                  /\ \A j \in 1..Len(v) : PrintT(<<"V", -(64 * e.id + j), v[j]>>)
             /\ st' = CASE e.op = "new" -> NoRun
                        [] e.op = "start" -> [NoRun EXCEPT !.run = TRUE, !.x0 = [i \in 1..Len(e.vars) |-> e.vars[i].v],
                                                           !.m0 = e.ss, !.w = e.w, !.t = e.t, !.vars = e.vars,
                                                           !.zmax = e.zmax]
                        [] e.op = "eval" -> [st EXCEPT !.evs = Append(@, [p |-> e.p, f |-> e.f])]
                        [] e.op = "return" -> [st EXCEPT !.ret = TRUE, !.rx = e.x, !.rf = e.fun, !.envok = EnvOK(st, e), !.success = e.success]
                        [] e.op = "reject" -> [st EXCEPT !.run = FALSE]
                        [] OTHER -> st
             /\ pst' = CASE e.op = "new" -> <<>>
                         [] e.op = "start" -> Append(pst, e.proj)
                         [] e.op = "undo" /\ pst # <<>> -> SubSeq(pst, 1, Len(pst) - 1)
                         [] OTHER -> pst
        /\ l' = l + 1
Spec == Init /\ [][Next]_vars
Done == TLCGet("stats").diameter - 1 = Len(Trace) /\ PrintT(<<"DONE", Len(Trace)>>)
=============================================================================
