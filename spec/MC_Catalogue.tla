---------------------------- MODULE MC_Catalogue ----------------------------
(* Design-level model checking of Catalogue (C18).                            *)
(*                                                                            *)
(* 1. Lookup.  A toy catalogue with duplicate names, names that are           *)
(*    substrings of other names, names equal to another row's category and    *)
(*    names containing regular-expression metacharacters.  The lookup is the  *)
(*    documented algorithm (filter the rows that contain the query, rank by   *)
(*    edit distance to category or name, take the best) with two switches:    *)
(*      Variant = "spec"   literal containment, ties at the best distance go  *)
(*                         to a row whose name is the query                    *)
(*      Variant = "regex"  the query is used as a regular expression          *)
(*      Variant = "tie"    literal containment, ties broken arbitrarily       *)
(*    TLC enumerates every query derivable from the toy catalogue (each name  *)
(*    and each category, without and with each reference, plus a query that   *)
(*    matches nothing) and checks Catalogue!LookupPost.  "spec" satisfies it; *)
(*    "regex" and "tie" are kept as negative configurations that must violate *)
(*    it (they are what material.py does).                                    *)
(* 2. Laws.  Hand-computed exact instances of every dispersion formula, of    *)
(*    the segment law, the Abbe identity, the polyval identity and the power  *)
(*    certificates must be accepted and their perturbations rejected.         *)
EXTENDS Catalogue, TLC
CONSTANT Variant

--------------------------------------------------------------------------
Toy == <<
  [cat |-> <<"s","f","5">>,  name |-> <<"n","s","f","5">>,         reference |-> "x", filename |-> 1],
  [cat |-> <<"x","s","f">>,  name |-> <<"s","f","5">>,             reference |-> "x", filename |-> 2],
  [cat |-> <<"x","s","f">>,  name |-> <<"s","f","5","7">>,         reference |-> "x", filename |-> 3],
  [cat |-> <<"b","k">>,      name |-> <<"b","k","(","x",")">>,     reference |-> "x", filename |-> 4],
  [cat |-> <<"b","k">>,      name |-> <<"b","k","(","y",")">>,     reference |-> "y", filename |-> 5],
  [cat |-> <<"q">>,          name |-> <<"a","+","b">>,             reference |-> "y", filename |-> 6],
  [cat |-> <<"q">>,          name |-> <<"s","f","5">>,             reference |-> "y", filename |-> 7],
  [cat |-> <<"q">>,          name |-> <<"a","a","b">>,             reference |-> "y", filename |-> 8],
  [cat |-> <<"q">>,          name |-> <<"a",".","b">>,             reference |-> "x", filename |-> 9] >>
Rows == 1..Len(Toy)
Refs == {Toy[i].reference : i \in Rows}
QNames == {Toy[i].name : i \in Rows} \cup {Toy[i].cat : i \in Rows} \cup {<<"z","z">>}
Queries == {[name |-> nm, has_ref |-> FALSE, ref |-> ""] : nm \in QNames}
           \cup {[name |-> nm, has_ref |-> TRUE, ref |-> rf] : nm \in QNames, rf \in Refs}

\* containment: literal, or the query read as a regular expression over
\* literals, '.', postfix '+' and grouping parentheses
Literal(p, t) == \E i \in 1..(Len(t) - Len(p) + 1) : SubSeq(t, i, i + Len(p) - 1) = p
ChEq(pc, tc) == pc = "." \/ pc = tc
RECURSIVE MatchHere(_, _)
MatchHere(p, t) ==
  IF p = <<>> THEN TRUE
  ELSE IF Len(p) >= 2 /\ p[2] = "+"
       THEN t # <<>> /\ ChEq(p[1], t[1]) /\ (MatchHere(p, Tail(t)) \/ MatchHere(SubSeq(p, 3, Len(p)), Tail(t)))
       ELSE t # <<>> /\ ChEq(p[1], t[1]) /\ MatchHere(Tail(p), Tail(t))
Ungroup(p) == SelectSeq(p, LAMBDA ch : ch \notin {"(", ")"})
Regex(p, t) == \E i \in 1..(Len(t) + 1) : MatchHere(Ungroup(p), SubSeq(t, i, Len(t)))
Contains(p, t) == IF Variant = "regex" THEN Regex(p, t) ELSE Literal(p, t)

Min2(a, b) == IF a <= b THEN a ELSE b
RECURSIVE Lev(_, _)
Lev(a, b) == IF a = <<>> THEN Len(b) ELSE IF b = <<>> THEN Len(a)
             ELSE Min2(Min2(Lev(Tail(a), b) + 1, Lev(a, Tail(b)) + 1),
                       Lev(Tail(a), Tail(b)) + (IF a[1] = b[1] THEN 0 ELSE 1))
Cands(q) == {i \in Rows : /\ Contains(q.name, Toy[i].cat) \/ Contains(q.name, Toy[i].name)
                          /\ q.has_ref => Toy[i].reference = q.ref}
Score(q, i) == Min2(Lev(q.name, Toy[i].cat), Lev(q.name, Toy[i].name))
Best(q) == {i \in Cands(q) : \A j \in Cands(q) : Score(q, i) <= Score(q, j)}
Pick(q) == IF Variant = "tie" THEN Best(q)
           ELSE LET ex == {i \in Best(q) : Toy[i].name = q.name} IN IF ex # {} THEN ex ELSE Best(q)
Raised == [ok |-> FALSE, name |-> <<>>, reference |-> "", filename |-> 0]
Results(q) == IF Cands(q) = {} THEN {Raised}
              ELSE {[ok |-> TRUE, name |-> Toy[i].name, reference |-> Toy[i].reference,
                     filename |-> Toy[i].filename] : i \in Pick(q)}

VARIABLES q, r, phase
vars == <<q, r, phase>>
Init == q \in Queries /\ r = Raised /\ phase = "asked"
Next == phase = "asked" /\ r' \in Results(q) /\ phase' = "answered" /\ UNCHANGED q
Spec == Init /\ [][Next]_vars
Post == phase = "answered" => LookupPost(Toy, q, r)
\* the fuzzy part of the lookup is not specified away: a category query still finds a row of it
Fuzzy == (phase = "answered" /\ q.name = <<"b","k">> /\ ~q.has_ref) => (r.ok /\ r.filename \in {4, 5})
NoMatchRaises == (phase = "answered" /\ q.name = <<"z","z">>) => ~r.ok

--------------------------------------------------------------------------
Q(n, k) == DShift(DInt(n), -k)                               \* n / 2^k
No == [t |-> "none"]
I(e) == [t |-> "int", e |-> e]
F972 == [k |-> "fin", s |-> 1, e |-> -51, m |-> <<12845, 15990, 10878, 497>>]      \* float(0.972)
Fev(type, c, x, w, n) == [kind |-> "formula", type |-> type, c |-> c, x |-> x, w |-> w, n |-> n, na |-> n]
NoX(c) == [i \in 1..Len(c) |-> No]
Witnesses == <<
  Fev("formula 1", <<DZero, Q(9, 2), DOne>>, NoX(<<1, 2, 3>>), DInt(2), DInt(2)),
  Fev("formula 1", <<DOne, DInt(3), DOne, DInt(5), DInt(3)>>, NoX(<<1, 2, 3, 4, 5>>), DInt(2), DInt(2) ),
  Fev("formula 2", <<DZero, Q(3, 1), DInt(2)>>, NoX(<<1, 2, 3>>), DInt(2), DInt(2)),
  Fev("formula 3", <<DOne, Q(1, 1), DInt(2), DInt(4), DInt(-2)>>, <<No, No, I(2), No, I(-2)>>, DInt(2), DInt(2)),
  Fev("formula 4", <<DOne, DInt(3), DZero, DOne, DInt(2), DOne, DInt(2), DInt(2), DOne, Q(5, 2), DInt(2)>>,
      <<No, No, I(0), No, I(2), No, I(2), No, I(1), No, I(2)>>, DInt(2), DInt(3)),
  Fev("formula 5", <<DOne, DInt(2), DInt(-2)>>, <<No, No, I(-2)>>, DInt(2), Q(3, 1)),
  Fev("formula 5", <<DOne, DInt(3), Q(1, 1)>>, <<No, No, [t |-> "rat", num |-> 1, den |-> 2, p |-> DInt(2)]>>,
      DInt(4), DInt(7)),
  Fev("formula 5", <<DOne, DInt(3), Q(-3, 1)>>, <<No, No, [t |-> "rat", num |-> -3, den |-> 2, p |-> Q(1, 3)]>>,
      DInt(4), Q(11, 3)),
  Fev("formula 6", <<DZero, Q(1, 3), Q(1, 1)>>, NoX(<<1, 2, 3>>), DInt(2), Q(3, 1)),
  Fev("formula 7", <<DOne, F972, DZero, Q(1, 1)>>, NoX(<<1, 2, 3, 4>>), DOne, Q(5, 1)),
  Fev("formula 8", <<DZero, Q(1, 3), DInt(2), Q(1, 4)>>, NoX(<<1, 2, 3, 4>>), DInt(2), DInt(2)),
  Fev("formula 9", <<DOne, DInt(2), DInt(2), DInt(4), DOne, DOne>>, NoX(<<1, 2, 3, 4, 5, 6>>), DInt(2), DInt(2)),
  [kind |-> "tab", w |-> DInt(2), v |-> DInt(3), va |-> DInt(3), segs |-> << <<DOne, DInt(2), DInt(3), DInt(4)>> >>],
  [kind |-> "tab", w |-> DInt(3), v |-> Q(9, 1), va |-> Q(9, 1),
   segs |-> << <<DOne, DInt(2), DInt(3), DInt(4)>>, <<DInt(3), DInt(4), DInt(3), DInt(5)>> >>]   \* duplicated node
>>
\* witness 2 is a deliberately wrong instance: two Sellmeier terms at w = 2 give
\* n^2 - 1 = 1 + 3*4/(4-1) + 5*4/(4-9) = 1, i.e. n^2 = 2, so the listed n = 2 must be REJECTED
WrongWitness == {2}
Bump(x) == DAdd(x, Q(1, 20))
Perturbed(e) == IF e.kind = "formula" THEN [e EXCEPT !.n = Bump(e.n), !.na = Bump(e.n)]
                ELSE [e EXCEPT !.v = DAdd(e.v, DInt(2)), !.va = DAdd(e.v, DInt(2))]
SwapCoef(e) == [e EXCEPT !.c = [i \in 1..Len(e.c) |-> IF i = 1 THEN e.c[2] ELSE IF i = 2 THEN e.c[1] ELSE e.c[i]]]
JudgeW(e) == IF e.kind = "formula" THEN JudgeFormula(e) ELSE JudgeTab(e)

InitW == /\ q \in {[wi |-> i, mode |-> m] : i \in 1..Len(Witnesses), m \in {"as_is", "perturbed", "swapped"}}
         /\ r = {"pending"} /\ phase = "asked"
NextW == /\ phase = "asked"
         /\ LET e == Witnesses[q.wi] IN
              r' = JudgeW(IF q.mode = "as_is" THEN e
                          ELSE IF q.mode = "perturbed" THEN Perturbed(e)
                          ELSE IF e.kind = "formula" THEN SwapCoef(e) ELSE Perturbed(e))
         /\ phase' = "answered" /\ UNCHANGED q
SpecW == InitW /\ [][NextW]_vars
WitnessInv == phase = "answered" =>
                IF q.mode = "as_is" /\ q.wi \notin WrongWitness THEN r = {}
                ELSE r \cap {"formula", "segment", "malformed_coefficients"} # {}
\* other laws on constants (checked as an invariant so that TLC reports them by name)
AbbeLaw == /\ AbbeHolds(DInt(32), Q(3, 1), DAdd(Q(3, 1), Q(1, 7)), DSub(Q(3, 1), Q(1, 7)))
           /\ ~AbbeHolds(DAdd(DInt(32), Q(1, 10)), Q(3, 1), DAdd(Q(3, 1), Q(1, 7)), DSub(Q(3, 1), Q(1, 7)))
           /\ AbbeHolds(Inf(1), Q(3, 1), Q(3, 1), Q(3, 1)) /\ ~AbbeHolds(DInt(5), Q(3, 1), Q(3, 1), Q(3, 1))
KToy == [i \in 1..6 |-> [j \in 1..4 |-> IF i = 1 /\ j = 4 THEN DOne ELSE IF i = 2 /\ j = 3 THEN Q(1, 6)
                                          ELSE IF i = 3 /\ j = 1 THEN DInt(-1) ELSE DZero]]
\* n(w) = -nd^2 w^3 + (V/64) w + nd  at nd = 3/2, V = 32, w = 2:  -18 + 1 + 3/2
PolyLaw == /\ PolyvalHolds(Q(3, 1), DInt(32), KToy, DInt(2), Q(-31, 1))
           /\ ~PolyvalHolds(Q(3, 1), DInt(32), KToy, DInt(2), DAdd(Q(-31, 1), Q(1, 20)))
FitLaw == /\ FitNd(Q(3, 1), DAdd(Q(3, 1), Q(1, 11))) /\ ~FitNd(Q(3, 1), DAdd(Q(3, 1), Q(1, 9)))
          /\ FitV(DInt(32), Q(3, 1), DAdd(Q(3, 1), Q(1, 7)), DSub(Q(3, 1), Q(1, 7)))
          /\ FitV(DInt(34), Q(3, 1), DAdd(Q(3, 1), Q(1, 7)), DSub(Q(3, 1), Q(1, 7)))      \* model V = 32, 6 % off
          /\ ~FitV(DInt(40), Q(3, 1), DAdd(Q(3, 1), Q(1, 7)), DSub(Q(3, 1), Q(1, 7)))     \* 20 % off
          /\ ~FitV(DInt(32), Q(3, 1), DSub(Q(3, 1), Q(1, 7)), DAdd(Q(3, 1), Q(1, 7)))     \* anomalous dispersion
LineLaw == /\ IsLine([k |-> "fin", s |-> 1, e |-> -51, m |-> <<2041, 10092, 13625, 300>>], "d")
           /\ IsLine([k |-> "fin", s |-> 1, e |-> -52, m |-> <<581, 5121, 13105, 497>>], "F")
           /\ IsLine([k |-> "fin", s |-> 1, e |-> -43, m |-> <<9757, 12079, 5120, 1>>], "C")
           /\ ~IsLine(Q(5876, 13), "d")
ConstLaws == AbbeLaw /\ PolyLaw /\ FitLaw /\ LineLaw
=============================================================================
