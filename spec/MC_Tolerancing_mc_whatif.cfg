\* after a run the user goes on with the same object: up to four what-if steps
SPECIFICATION Spec
CONSTANTS
  Values <- MCValues
  Nom <- MCNom
  Shape = "mc"
  KindSets <- AllKinds
  RangeVals <- MCRange
  ScalarVal = 2
  NTrials = 2
  Streams <- Streams4
  WithComp = TRUE
  CompFns <- MCCompFns
  FailSets <- MCFailSets
  TrialReset = TRUE
  FinalReset = TRUE
  CompRebases = FALSE
  MaxUser = 4
  CompSkips = FALSE
INVARIANT TypeOK
INVARIANT RowsTrue
INVARIANT RowsCompensated
INVARIANT NominalReproduced
INVARIANT Reproducible
INVARIANT EndStateNominal
INVARIANT HandlesNominal
PROPERTY ResetRestores
CHECK_DEADLOCK FALSE
