SPECIFICATION SpecEdit
CONSTANTS
  MaxSurf = 5
  Radii <- MCRadii
  Thick <- MCThick
  Media <- MCMedia3
  Conics <- MCConics
  Tilts <- MCTilts
  Decs <- MCDecs
  Coefs <- MCCoefs
  Kinds <- BothKinds
  Waves <- MCWaves
  MaxWl = 3
  MaxPk = 2
  Base <- Singlet
  Depth = 4
VIEW View
CONSTRAINT LevelBound
INVARIANT FirstAtZero
INVARIANT MediumChain
INVARIANT AtMostOneStop
INVARIANT OnePrimary
INVARIANT ObjectBehind
PROPERTY RadiusFrame
PROPERTY ConicFrame
PROPERTY IndexFrame
PROPERTY ThicknessFrame
PROPERTY PickupsAfterUpdate
PROPERTY ScaleFrame
CHECK_DEADLOCK FALSE
