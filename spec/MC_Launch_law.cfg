SPECIFICATION SpecLaw
CONSTANT MaxN = 1
INVARIANTS WitnessAccepted CorruptionRejected
CHECK_DEADLOCK FALSE
