SPECIFICATION Spec
CONSTANT Variant = "spec"
INVARIANT Post
INVARIANT Fuzzy
INVARIANT NoMatchRaises
CHECK_DEADLOCK FALSE
