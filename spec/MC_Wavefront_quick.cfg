SPECIFICATION Spec
INVARIANT ModelOK
CONSTANT Full = FALSE
CHECK_DEADLOCK FALSE
