SPECIFICATION Spec
CONSTANT Variant = "regex"
INVARIANT Post
CHECK_DEADLOCK FALSE
