SPECIFICATION SpecDist
CONSTANT MaxN = 160
INVARIANTS HexFormula UniformFormula KnownCounts VigGrid VigJudge DiskJudge
CHECK_DEADLOCK FALSE
