----------------------------- MODULE MC_Seidel -----------------------------
(* Exhaustive grid model for C08.  A state is one conic-free lens of the grid      *)
(* (ParaxialGrid) with a stop position; the only step computes, in exact rational  *)
(* arithmetic, the marginal and chief rays (Paraxial!Model), the classical surface  *)
(* contributions (Seidel!Contrib) and what the library must return (Seidel!Terms),  *)
(* and the truth values of the theorems below.  `-dump` exports lens and `out`; the  *)
(* harness builds each lens with the public API (media with a three-wavelength       *)
(* index table) and compares third_order() with `out`.                              *)
EXTENDS ParaxialGrid, TLC
CONSTANTS Counts, RadCodes, MedCodes, ThkCodes, Cfgs
VARIABLES lens, out, thm
vars == <<lens, out, thm>>
QNear(a, b, s) == QDef(a) /\ QDef(b) /\ a = b
QTiny(a, s) == a[1] = 0
QPos(a) == a[1] > 0
QLeq(a, b) == QDef(a) /\ QDef(b) /\ QLe(a, b)
QMagProd(f) == QInt(1)        \* scales are ignored by the exact back-end
INSTANCE Seidel WITH Add <- QAdd, Sub <- QSub, Mul <- QMul, Div <- QDiv, Neg <- QNeg,
                     Abs <- QAbs, I <- QInt, Num <- QDef, Near <- QNear, Tiny <- QTiny, Pos <- QPos, Leq <- QLeq,
                     MagProd <- QMagProd
Surf == RadCodes \X MedCodes \X ThkCodes \X {0}

Fields == <<"TSC", "SC", "CC", "TCC", "TAC", "AC", "TPC", "PC", "DC", "TAchC", "LchC", "TchC">>
\* the arrays the library must return, as a record of sequences over surfaces 1..K-1
Families(L, X, dn) ==
  LET n == L.K - 1
      t == [k \in 1..n |-> Terms(L, X.ma, X.ch, dn, k)]
  IN [f \in {Fields[i] : i \in 1..12} |-> [k \in 1..n |-> t[k][f]]]
Sums(L, X, Tm) ==
  LET n == L.K - 1
      W == QMul(QInt(2), QMul(N(L, L.K), At(X.ma.u, L.K)))
      five == <<Tm.TSC, Tm.CC, Tm.TAC, Tm.TPC, Tm.DC>>
  IN [i \in 1..5 |-> QNeg(QMul(W, SumSeq(five[i], n)))]
Event(L, X, dn, Tm, S) ==
  [ma |-> X.ma, ch |-> X.ch, dn |-> dn, T |-> Tm, S |-> S, acc |-> Tm, accS |-> S, op |-> Tm,
   opsum |-> [j \in 1..12 |-> SumSeq(FamSeq(Tm)[j], L.K - 1)], opS |-> S, sa |-> [has |-> FALSE],
   fs |-> [kind |-> "none", v |-> QInt(0)], ident |-> FALSE]
\* Welford's sums of the classical contributions over all surfaces (the image surface included)
WSums(L, X, dn) ==
  LET c == [k \in 1..L.K |-> Contrib(L, X.ma, X.ch, dn, k)]
      tot(f) == SumSeq([k \in 1..L.K |-> c[k][f]], L.K)
  IN [S1 |-> tot("S1"), S2 |-> tot("S2"), S3 |-> tot("S3"), S4 |-> tot("S4"), S5 |-> tot("S5"),
      C1 |-> tot("C1"), C2 |-> tot("C2")]
RaysDef(X) == AllDef(X.ma.y) /\ AllDef(X.ma.u) /\ AllDef(X.ch.y) /\ AllDef(X.ch.u)
Names(V) == {c[1] : c \in V}
Theorems(e, L, X, dn, Tm, S, pick) ==
  LET n == L.K - 1
      def == RaysDef(X) /\ At(X.ma.u, L.K)[1] # 0
      E == Event(L, X, dn, Tm, S)
      \* the same lens with the stop on surface 1
      L1 == ToL([e EXCEPT !.s = 1])
      X1 == Model(L1)
      a == WSums(L, X, dn)
      b == WSums(L1, X1, dn)
      kap == QDiv(QSub(At(X.ch.y, 1), At(X1.ch.y, 1)), At(X.ma.y, 1))   \* chief = chief_1 + kap * marginal
      P(x, y) == QMul(x, y)
      Flip(f) == [E EXCEPT !.T[f] = [k \in 1..n |-> QNeg(@[k])]]
  IN [\* the division-free form of S_V is the textbook one wherever A # 0
      s5 |-> def => \A k \in 1..n : LET c == Contrib(L, X.ma, X.ch, dn, k)
                                    IN c.A[1] # 0 => c.S5 = c.S5q,
      \* the image surface (a plane inside one medium) contributes nothing
      img |-> def => LET c == Contrib(L, X.ma, X.ch, dn, L.K)
                     IN c.S1[1] = 0 /\ c.S2[1] = 0 /\ c.S3[1] = 0 /\ c.S4[1] = 0 /\ c.S5[1] = 0 /\ c.C1[1] = 0 /\ c.C2[1] = 0,
      \* H is the Lagrange invariant at every surface
      inv |-> def => \A k \in 1..n : Contrib(L, X.ma, X.ch, dn, k).H = X.acc.inv,
      \* the library's Seidel sums are minus Welford's sums
      welford |-> def => S = <<QNeg(a.S1), QNeg(a.S2), QNeg(a.S3), QNeg(a.S4), QNeg(a.S5)>>,
      laws |-> IF def THEN VerdictSeidel(L, E) ELSE {},
      \* stop shift (same marginal ray, same field point): spherical, Petzval and axial colour do not
      \* move; coma, astigmatism, distortion and lateral colour follow the stop-shift formulas
      shift |-> (def /\ e.cfg \in {1, 8} /\ RaysDef(X1) /\ X1.ma = X.ma /\ QDef(kap)) =>
                  /\ X1.acc.inv = X.acc.inv
                  /\ a.S1 = b.S1 /\ a.S4 = b.S4 /\ a.C1 = b.C1
                  /\ a.S2 = QAdd(b.S2, P(kap, b.S1))
                  /\ a.C2 = QAdd(b.C2, P(kap, b.C1)),
      \* astigmatism and distortion: the full formulas, on the lenses with a remote stop (a plane in air
      \* in front of or behind one powered surface); elsewhere their numerators leave 32 bits.
      \* Horner form.  This is what fixes the sign of S_V (and S_III) relative to S_I and S_IV.
      shift2 |-> (def /\ e.cfg \in {1, 8} /\ RaysDef(X1) /\ X1.ma = X.ma /\ QDef(kap) /\ Len(e.sf) = 2
                  /\ \E j \in 1..2 : e.sf[j][1] = 0 /\ e.sf[j][2] = 1 /\ MedOf(e.sf, j - 1) = 1) =>
                  /\ a.S3 = QAdd(b.S3, P(kap, QAdd(P(QInt(2), b.S2), P(kap, b.S1))))
                  /\ a.S5 = QAdd(b.S5, P(kap, QAdd(QAdd(P(QInt(3), b.S3), b.S4),
                                                   P(kap, QAdd(P(QInt(3), b.S2), P(kap, b.S1)))))),
      \* vacuity guard: a record with one family negated / scaled is rejected by the clause that owns it
      sens |-> ~def \/ (\A k \in 1..n : Tm.TSC[k][1] = 0) \/
               CASE pick = 0 -> (\E k \in 1..n : Tm.DC[k][1] # 0) => "DC" \in Names(VerdictSeidel(L, Flip("DC")))
                 [] pick = 1 -> "TSC" \in Names(VerdictSeidel(L, Flip("TSC")))
                 [] pick = 2 -> (\E k \in 1..n : Tm.TPC[k][1] # 0) => "TPC" \in Names(VerdictSeidel(L, Flip("TPC")))
                 [] pick = 3 -> (\E k \in 1..n : Tm.CC[k][1] # 0) => "CC" \in Names(VerdictSeidel(L, Flip("CC")))
                 [] pick = 4 -> (\E k \in 1..n : Tm.TchC[k][1] # 0) => "TchC" \in Names(VerdictSeidel(L, Flip("TchC")))
                 [] pick = 5 -> "SC" \in Names(VerdictSeidel(L, Flip("SC")))
                 [] pick = 6 -> "seidel_sum" \in Names(VerdictSeidel(L, [E EXCEPT !.S[1] = QAdd(@, QInt(1))]))
                 [] pick = 7 -> "operand_surface" \in Names(VerdictSeidel(L, [E EXCEPT !.op.TSC[1] = QAdd(@, QInt(1))]))
                 [] pick = 8 -> (\E k \in 1..n : Tm.TAchC[k][1] # 0) => "TAchC" \in Names(VerdictSeidel(L, Flip("TAchC")))
                 [] pick = 9 -> (\E k \in 1..n : Tm.TAC[k][1] # 0) => "TAC" \in Names(VerdictSeidel(L, Flip("TAC")))]

Export(L, Tm, S) == Flat([j \in 1..(12 * (L.K - 1)) |->
                           FamSeq(Tm)[((j - 1) \div (L.K - 1)) + 1][((j - 1) % (L.K - 1)) + 1]] \o S)
Init == /\ \E n \in Counts : \E sf \in [1..n -> Surf] : \E s \in 1..n : \E c \in Cfgs :
             lens = [sf |-> sf, s |-> s, cfg |-> c]
        /\ out = <<>> /\ thm = <<>>
Next == /\ out = <<>>
        /\ LET L == ToL(lens)
               dn == ToDN(lens)
               X == Model(L)
               Tm == Families(L, X, dn)
               S == Sums(L, X, Tm)
           IN /\ out' = Export(L, Tm, S)
              /\ thm' = Theorems(lens, L, X, dn, Tm, S, (CodeSum(lens.sf) + lens.s + 3 * lens.cfg) % 10)
        /\ UNCHANGED lens
Spec == Init /\ [][Next]_vars
Done == out # <<>>
DistortionForms == Done => thm.s5
ImageSurfaceInert == Done => thm.img
InvariantEverywhere == Done => thm.inv
SumsAreWelford == Done => thm.welford
ModelSatisfiesLaws == Done => thm.laws = {}
StopShift == Done => thm.shift
StopShiftAstigDist == Done => thm.shift2
LawsNotVacuous == Done => thm.sens
=============================================================================
