SPECIFICATION Spec
INVARIANT ModelOK
INVARIANT Export
CONSTANT Fams = {"fresnel", "normal", "polarizer", "retarder", "diattenuator", "basis"}
CHECK_DEADLOCK FALSE
