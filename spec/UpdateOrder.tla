---------------------------- MODULE UpdateOrder ----------------------------
(* Optic.update() as the implementation performs it: a multi-step process.   *)
(*                                                                            *)
(*   update()  =  PickupManager.apply()  ;  SolveManager.apply()              *)
(*                                                                            *)
(* PickupManager.apply walks the pickup list in list order, each pickup       *)
(* reading its source *as it is at that moment* and writing its target.       *)
(* SolveManager.apply walks the solves, each one tracing the paraxial         *)
(* marginal ray through the lens *as it is at that moment* and moving its     *)
(* surface and every later one rigidly (which is a change of exactly one gap) *)
(* so that the ray arrives at the requested height.  pickups.add and          *)
(* solves.add apply the new entry once, immediately, and nothing else.        *)
(*                                                                            *)
(* The lens is a paraxial lens over exact rationals (SmallRat): object at     *)
(* infinity, stop on surface 1, marginal ray (y, u) = (Y0, 0) in front of     *)
(* surface 1.  One spec action per pickup application and per solve           *)
(* application, so that TLC explores every state the implementation passes    *)
(* through inside one update() call; the conformance replay (C01 driver,      *)
(* harness/drivers/c01_update.py) compares the implementation with the idle   *)
(* states, i.e. at the public calls' returns.                                 *)
(*                                                                            *)
(* SolveOrder names the order in which SolveManager.apply walks the solves:   *)
(*   "ascending" - by surface index (the implementation after the fix commit  *)
(*                 "fix: apply solves in order of increasing surface")        *)
(*   "list"      - in the order they were added (the implementation before    *)
(*                 it).  With "list", TLC refutes SolvesHold: a solve on an   *)
(*                 earlier surface applied after one on a later surface       *)
(*                 destroys the later one.  The harness keeps that            *)
(*                 configuration as a negative control.                       *)
EXTENDS Integers, Sequences, FiniteSets, SmallRat, TLC

CONSTANTS NS,          \* surfaces 1..NS; NS is the image plane (index ratio 1 there)
          Y0,          \* marginal ray height in front of surface 1 (a rational)
          BaseR,       \* Seq: radius of surface k, PLANE for a plane
          BaseT,       \* Seq (NS-1): gap behind surface k
          BaseN,       \* Seq (NS): index behind surface k
          Radii, Gaps, Heights,   \* grids of rationals
          Pickups,                \* the pickups that may be added: [attr, src, tgt, scale, off]
          MaxPk, MaxSv, MaxCalls,
          SolveOrder
VARIABLES R, t,        \* the prescription: radii and gaps
          pk, sv,      \* pickup list, solve list (in order of addition)
          pc,          \* <<"idle">> | <<"pk", i>> | <<"sv", i>>
          fresh,       \* TRUE exactly when update() has returned and nothing was edited since
          snap,        \* prescription at the start of an update() that began fresh, else NoSnap
          poison,      \* a solve met a ray parallel to the axis, or a radius became 0
          hist         \* the public calls so far (history variable, not in the VIEW)
vars == <<R, t, pk, sv, pc, fresh, snap, poison, hist>>

PLANE == <<1, 0>>
NoSnap == <<>>
Zero == <<0, 1>>
One == <<1, 1>>
Idle == pc = <<"idle">>

---------------------------------------------------------------------------
(* the paraxial marginal ray: ray[k] = <<y_k, u_k>>, height on surface k and  *)
(* slope behind it (Paraxial._trace_generic with the object at infinity)      *)
Curv(RR, k) == IF RR[k] = PLANE THEN Zero ELSE QInv(RR[k])
NPre(k) == IF k = 1 THEN One ELSE BaseN[k - 1]
RECURSIVE RayTo(_, _, _)
RayTo(RR, tt, k) ==
  IF k = 0 THEN <<>>
  ELSE LET prev == RayTo(RR, tt, k - 1)
           yin == IF k = 1 THEN Y0 ELSE QAdd(prev[k - 1][1], QMul(tt[k - 1], prev[k - 1][2]))
           uin == IF k = 1 THEN Zero ELSE prev[k - 1][2]
           n1 == NPre(k)
           n2 == BaseN[k]
           uout == QDiv(QSub(QMul(n1, uin), QMul(yin, QMul(QSub(n2, n1), Curv(RR, k)))), n2)
       IN Append(prev, <<yin, uout>>)
Ray(RR, tt) == RayTo(RR, tt, NS)
Height(RR, tt, k) == Ray(RR, tt)[k][1]
SlopeInto(RR, tt, k) == Ray(RR, tt)[k - 1][2]       \* slope of the ray arriving at surface k >= 2

---------------------------------------------------------------------------
(* one pickup application: Pickup.apply                                       *)
PkNew(RR, tt, p) == IF p.attr = "radius" THEN QAdd(QMul(p.scale, RR[p.src]), p.off)
                    ELSE QAdd(QMul(p.scale, tt[p.src]), p.off)
PkBad(RR, tt, p) == p.attr = "radius" /\ (RR[p.src] = PLANE \/ PkNew(RR, tt, p) = Zero)
ApplyPkR(RR, tt, p) == IF p.attr = "radius" THEN [RR EXCEPT ![p.tgt] = PkNew(RR, tt, p)] ELSE RR
ApplyPkT(RR, tt, p) == IF p.attr = "thickness" THEN [tt EXCEPT ![p.tgt] = PkNew(RR, tt, p)] ELSE tt
PkHolds(RR, tt, p) == IF p.attr = "radius" THEN RR[p.tgt] = PkNew(RR, tt, p)
                      ELSE tt[p.tgt] = PkNew(RR, tt, p)

(* one solve application: MarginalRayHeightSolve.apply - the gap in front of  *)
(* surface s.k grows by (h - y_k) / u_{k-1}                                    *)
SvBad(RR, tt, s) == SlopeInto(RR, tt, s.k) = Zero
SvOffset(RR, tt, s) == QDiv(QSub(s.h, Height(RR, tt, s.k)), SlopeInto(RR, tt, s.k))
ApplySv(RR, tt, s) == [tt EXCEPT ![s.k - 1] = QAdd(@, SvOffset(RR, tt, s))]
SvHolds(RR, tt, s) == Height(RR, tt, s.k) = s.h

(* the order in which SolveManager.apply walks the solves *)
RECURSIVE InsertSorted(_, _)
InsertSorted(seq, s) == IF seq = <<>> THEN <<s>>
                        ELSE IF s.k < Head(seq).k THEN <<s>> \o seq       \* stable: equal keys keep list order
                        ELSE <<Head(seq)>> \o InsertSorted(Tail(seq), s)
RECURSIVE SortSv(_)
SortSv(seq) == IF seq = <<>> THEN <<>> ELSE InsertSorted(SortSv(SubSeq(seq, 1, Len(seq) - 1)), seq[Len(seq)])
Walk == IF SolveOrder = "list" THEN sv ELSE SortSv(sv)

---------------------------------------------------------------------------
Call(op, a) == hist' = Append(hist, [op |-> op, a |-> a])
Edited == fresh' = FALSE /\ snap' = NoSnap

Init == /\ R = BaseR /\ t = BaseT /\ pk = <<>> /\ sv = <<>> /\ pc = <<"idle">>
        /\ fresh = FALSE /\ snap = NoSnap /\ poison = FALSE /\ hist = <<>>

CanCall == Idle /\ ~poison /\ Len(hist) < MaxCalls

SetRadius(k, r) == /\ CanCall /\ k \in 1..(NS - 1) /\ R[k] # r
                   /\ R' = [R EXCEPT ![k] = r] /\ Edited
                   /\ UNCHANGED <<t, pk, sv, pc, poison>> /\ Call("set_radius", [k |-> k, v |-> r])
SetThickness(k, v) == /\ CanCall /\ k \in 1..(NS - 1) /\ t[k] # v
                      /\ t' = [t EXCEPT ![k] = v] /\ Edited
                      /\ UNCHANGED <<R, pk, sv, pc, poison>> /\ Call("set_thickness", [k |-> k, v |-> v])
AddPickup(p) == /\ CanCall /\ Len(pk) < MaxPk /\ p.src # p.tgt
                /\ (p.attr = "radius" => p.src \in 1..(NS - 1) /\ p.tgt \in 1..(NS - 1)
                                         /\ R[p.src] # PLANE /\ R[p.tgt] # PLANE)
                /\ (p.attr = "thickness" => p.src \in 1..(NS - 2) /\ p.tgt \in 1..(NS - 2))
                /\ ~PkBad(R, t, p)
                /\ R' = ApplyPkR(R, t, p) /\ t' = ApplyPkT(R, t, p) /\ pk' = Append(pk, p) /\ Edited
                /\ UNCHANGED <<sv, pc, poison>> /\ Call("pickup_add", p)
AddSolve(s) == /\ CanCall /\ Len(sv) < MaxSv /\ s.k \in 2..NS
               /\ ~SvBad(R, t, s)
               /\ t' = ApplySv(R, t, s) /\ sv' = Append(sv, s) /\ Edited
               /\ UNCHANGED <<R, pk, pc, poison>> /\ Call("solve_add", s)
ImageSolve == /\ CanCall /\ ~SvBad(R, t, [k |-> NS, h |-> Zero])
              /\ t' = ApplySv(R, t, [k |-> NS, h |-> Zero]) /\ Edited
              /\ UNCHANGED <<R, pk, sv, pc, poison>> /\ Call("image_solve", [x |-> 0])

(* update(): begin, one step per pickup, one step per solve, return *)
UpdateBegin == /\ CanCall /\ (pk # <<>> \/ sv # <<>>)
               /\ pc' = <<"pk", 1>> /\ snap' = IF fresh THEN <<R, t>> ELSE NoSnap
               /\ UNCHANGED <<R, t, pk, sv, fresh, poison, hist>>
PickupStep == /\ pc[1] = "pk" /\ pc[2] <= Len(pk) /\ ~poison
              /\ LET p == pk[pc[2]] IN
                   IF PkBad(R, t, p) THEN poison' = TRUE /\ UNCHANGED <<R, t, pc>>
                   ELSE /\ R' = ApplyPkR(R, t, p) /\ t' = ApplyPkT(R, t, p)
                        /\ pc' = <<"pk", pc[2] + 1>> /\ UNCHANGED poison
              /\ UNCHANGED <<pk, sv, fresh, snap, hist>>
PickupsDone == /\ pc[1] = "pk" /\ pc[2] > Len(pk) /\ ~poison
               /\ pc' = <<"sv", 1>> /\ UNCHANGED <<R, t, pk, sv, fresh, snap, poison, hist>>
SolveStep == /\ pc[1] = "sv" /\ pc[2] <= Len(sv) /\ ~poison
             /\ LET s == Walk[pc[2]] IN
                  IF SvBad(R, t, s) THEN poison' = TRUE /\ UNCHANGED <<t, pc>>
                  ELSE /\ t' = ApplySv(R, t, s) /\ pc' = <<"sv", pc[2] + 1>> /\ UNCHANGED poison
             /\ UNCHANGED <<R, pk, sv, fresh, snap, hist>>
UpdateEnd == /\ pc[1] = "sv" /\ pc[2] > Len(sv) /\ ~poison
             /\ pc' = <<"idle">> /\ fresh' = TRUE
             /\ UNCHANGED <<R, t, pk, sv, snap, poison>> /\ Call("update", [x |-> 0])

PickupSet == Pickups
SolveSet == [k : 2..NS, h : Heights]
Edit == \/ \E k \in 1..(NS - 1), r \in Radii : SetRadius(k, r)
        \/ \E k \in 1..(NS - 1), v \in Gaps : SetThickness(k, v)
        \/ \E p \in PickupSet : AddPickup(p)
        \/ \E s \in SolveSet : AddSolve(s)
        \/ ImageSolve
Inside == PickupStep \/ PickupsDone \/ SolveStep \/ UpdateEnd
Next == Edit \/ UpdateBegin \/ Inside
Spec == Init /\ [][Next]_vars /\ WF_vars(Inside)

---------------------------------------------------------------------------
(* What a user may rely on.                                                   *)
(* Two solves on one surface with different heights contradict each other,    *)
(* as do two pickups with one target; a pickup whose source is written by a   *)
(* later pickup is stale by one update() (list order is the documented        *)
(* mechanism); a thickness pickup that reads or writes a gap a solve owns is  *)
(* over-determined.  Outside these, update() must establish everything.       *)
SolvesConsistent == \A i, j \in 1..Len(sv) : sv[i].k = sv[j].k => sv[i].h = sv[j].h
SolvedGaps == {sv[i].k - 1 : i \in 1..Len(sv)}
PickupsOrdered == \A i, j \in 1..Len(pk) :
                    /\ (i # j => ~(pk[i].attr = pk[j].attr /\ pk[i].tgt = pk[j].tgt))
                    /\ (i < j => ~(pk[i].attr = pk[j].attr /\ pk[i].src = pk[j].tgt))
PickupsFreeOfSolves == \A i \in 1..Len(pk) : pk[i].attr = "thickness" =>
                          (pk[i].src \notin SolvedGaps /\ pk[i].tgt \notin SolvedGaps)
Compatible == SolvesConsistent /\ PickupsOrdered /\ PickupsFreeOfSolves

Settled == Idle /\ fresh /\ ~poison

\* C01: after update() every solve places the marginal ray at its height
SolvesHold == (Settled /\ SolvesConsistent) => \A i \in 1..Len(sv) : SvHolds(R, t, sv[i])
\* C01: after update() every pickup target equals scale * source + offset
PickupsHold == (Settled /\ Compatible) => \A i \in 1..Len(pk) : PkHolds(R, t, pk[i])
\* the same without the admissibility condition: refuted by TLC (negative control), which
\* shows that the condition is not vacuous and where its boundary lies
PickupsHoldAlways == Settled => \A i \in 1..Len(pk) : PkHolds(R, t, pk[i])
\* update() is idempotent: a second update() right after one changes nothing
Idempotent == (Settled /\ snap # NoSnap /\ Compatible) => <<R, t>> = snap
\* image_solve puts the paraxial focus on the image plane (the state right after the call)
ImageSolved == (Idle /\ hist # <<>> /\ hist[Len(hist)].op = "image_solve") => Height(R, t, NS) = Zero
\* add applies the new entry once
AddApplies == (Idle /\ hist # <<>> /\ ~poison) =>
                 LET c == hist[Len(hist)] IN
                   /\ (c.op = "solve_add" => SvHolds(R, t, c.a))
                   /\ (c.op = "pickup_add" => PkHolds(R, t, c.a))

\* frame conditions of the inner steps
SolveStepFrame == [][SolveStep => (R' = R /\ \A g \in 1..(NS - 1) :
                                      (g # Walk[pc[2]].k - 1 => t'[g] = t[g]))]_vars
PickupStepFrame == [][PickupStep =>
                        LET p == pk[pc[2]] IN
                          /\ \A k \in 1..NS : ((p.attr # "radius" \/ k # p.tgt) => R'[k] = R[k])
                          /\ \A g \in 1..(NS - 1) : ((p.attr # "thickness" \/ g # p.tgt) => t'[g] = t[g])]_vars
\* the lemma behind SolvesHold: walking in ascending order, a solve step keeps every solve
\* already walked in this update() satisfied
EarlierSolvesKept == [][(SolveStep /\ SolveOrder = "ascending" /\ SolvesConsistent /\ ~poison') =>
                          \A j \in 1..pc[2] : SvHolds(R', t', Walk[j])]_vars
\* pickups and solves never touch the lists, the lists only grow
ListsGrow == [][/\ Len(pk') >= Len(pk) /\ SubSeq(pk', 1, Len(pk)) = pk
                /\ Len(sv') >= Len(sv) /\ SubSeq(sv', 1, Len(sv)) = sv]_vars
\* every update() returns (or is poisoned)
Terminates == (pc # <<"idle">>) ~> (pc = <<"idle">> \/ poison)

TypeOK == /\ Len(R) = NS /\ Len(t) = NS - 1
          /\ pc \in {<<"idle">>} \cup ({"pk", "sv"} \X (1..(MaxPk + MaxSv + 1)))
          /\ fresh \in BOOLEAN /\ poison \in BOOLEAN
          /\ \A k \in 1..NS : R[k] = PLANE \/ QDef(R[k])
          /\ (~poison => \A g \in 1..(NS - 1) : QDef(t[g]))
View == <<R, t, pk, sv, pc, fresh, snap, poison, Len(hist),
          IF hist = <<>> THEN <<>> ELSE hist[Len(hist)]>>
=============================================================================
