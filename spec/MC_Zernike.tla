----------------------------- MODULE MC_Zernike -----------------------------
(* Exhaustive check of the Zernike model itself (C10).  One TLC state per     *)
(* (family, i, j), 1 <= i <= j <= 120:                                        *)
(*   IndexInv     the i-th pair is the unique pair with that number, pairs    *)
(*                are distinct and in increasing order of their number        *)
(*   NollAgree    Noll's closed formula and Noll's ordering rule agree        *)
(*   EdgeInv      R_n^|m|(1) = 1; the integer coefficients satisfy the        *)
(*                factorial formula                                           *)
(*   OrthoInv     (1/pi) <Z_i, Z_j> = delta_ij by exact rational integration   *)
(*                (Fringe: orthogonal with |Z|^2 = (1+[m=0])/(2n+2))           *)
(* ASSUMEs: the published tables (prefixes) as witnesses, pool completeness,  *)
(* Cartesian textbook forms of low-order terms, linearity of Eval, L/d.       *)
(* The "gen" configuration prints the index lists, coefficient vectors and    *)
(* exact radial values at r = k/8 for the replay into the implementation.     *)
(* (State variables are deliberately not called i, j: a variable that shares *)
(* its name with an operator parameter of an extended module makes TLC stop  *)
(* caching lazy values - measured 100x slower.  TLC also re-evaluates the     *)
(* constant definitions once per worker: run with -workers 4.)               *)
EXTENDS Zernike
VARIABLES zfam, zi, zj
vars == <<zfam, zi, zj>>
\* one root per family spawns the 120 diagonal pairs, each of which spawns its row (so that the
\* workers share the off-diagonal pairs)
Init == zfam \in Families /\ zi = 0 /\ zj = 0
Next == \/ zi = 0 /\ zi' \in 1..NTERMS /\ zj' = zi' /\ UNCHANGED zfam
        \/ zi > 0 /\ zj = zi /\ zj' \in (zi + 1)..NTERMS /\ UNCHANGED <<zfam, zi>>
        \/ UNCHANGED vars
Spec == Init /\ [][Next]_vars

IndexInvBody == LET p == Idx(zfam)[zi]
                q == Idx(zfam)[zj] IN
            /\ p \in Valid /\ (zi = zj => Cardinality(Candidates(zfam, zi)) = 1)
            /\ J(zfam, p) = First(zfam) + zi - 1
            /\ (zi # zj => p # q /\ J(zfam, p) < J(zfam, q))
NollAgreeBody == zfam = "noll" => NollByRule[zi] = IdxNoll[zi]
EdgeInvBody == LET p == Idx(zfam)[zi] IN
           zi = zj => REdge(p[1], ZAbs(p[2])) = 1 /\ FactorialFormula(p[1], ZAbs(p[2]))
OrthoInvBody == Orthonormal(zfam, Idx(zfam)[zi], Idx(zfam)[zj])
\* non-vacuity of OrthoInv: a wrong normalisation or a shifted order must be rejected
OrthoWrongNormBody == zi = zj /\ Idx(zfam)[zi][2] # 0 /\ zfam # "fringe"
                  => DMul(DInt(Idx(zfam)[zi][1] + 1), RadInner(Idx(zfam)[zi][1], Idx(zfam)[zi][1], ZAbs(Idx(zfam)[zi][2]))) # LFull

IndexInv == zi > 0 => IndexInvBody
NollAgree == zi > 0 => NollAgreeBody
EdgeInv == zi > 0 => EdgeInvBody
OrthoInv == zi > 0 => OrthoInvBody
OrthoWrongNorm == zi > 0 => OrthoWrongNormBody

--------------------------------------------------------------------------
(* constant-level facts checked once                                        *)
ASSUME Len(NollByRule) = NTERMS /\ Len(IdxStd) = NTERMS /\ Len(IdxFringe) = NTERMS
\* no pair beyond the candidate pool has a number within the first 120
ASSUME \A f \in Families : \A p \in ValidUpTo(26) \ Valid : J(f, p) > First(f) + NTERMS - 1
\* published tables (Thibos 2002 table 2; Noll 1976 table 1; Fringe/Univ. of Arizona set)
ASSUME SubSeq(IdxStd, 1, 10) = << <<0,0>>, <<1,-1>>, <<1,1>>, <<2,-2>>, <<2,0>>, <<2,2>>, <<3,-3>>, <<3,-1>>, <<3,1>>, <<3,3>> >>
ASSUME SubSeq(IdxNoll, 1, 15) = << <<0,0>>, <<1,1>>, <<1,-1>>, <<2,0>>, <<2,-2>>, <<2,2>>, <<3,-1>>, <<3,1>>,
                                   <<3,-3>>, <<3,3>>, <<4,0>>, <<4,2>>, <<4,-2>>, <<4,4>>, <<4,-4>> >>
ASSUME SubSeq(IdxFringe, 1, 16) = << <<0,0>>, <<1,1>>, <<1,-1>>, <<2,0>>, <<2,2>>, <<2,-2>>, <<3,1>>, <<3,-1>>, <<4,0>>,
                                     <<3,3>>, <<3,-3>>, <<4,2>>, <<4,-2>>, <<5,1>>, <<5,-1>>, <<6,0>> >>
ASSUME IdxFringe[36] = <<10, 0>> /\ IdxFringe[37] = <<6, 6>> /\ IdxFringe[120] = <<19, -1>>
\* textbook radial polynomials
ASSUME RSeq(2, 0) = <<2, -1>> /\ RSeq(3, 1) = <<3, -2>> /\ RSeq(4, 0) = <<6, -6, 1>>
       /\ RSeq(4, 2) = <<4, -3>> /\ RSeq(6, 0) = <<20, -30, 12, -1>> /\ RSeq(5, 1) = <<10, -12, 3>>
\* L / d is what it says
ASSUME \A d \in 1..40 : DMul(LOver(d), DInt(d)) = LFull
\* Cartesian forms of low-order terms at x = 3/8, y = -1/4 (exact):  t = x^2 + y^2
Wx == DShift(DInt(3), -3)
Wy == DShift(DInt(-1), -2)
Wt == DAdd(DSq(Wx), DSq(Wy))
WP == Point(Wx, Wy, 4, 3)
ASSUME TermAt(0, 0, WP) = DOne
ASSUME TermAt(1, 1, WP) = Wx /\ TermAt(1, -1, WP) = Wy
ASSUME TermAt(2, 0, WP) = DSub(DTwo(Wt), DOne)
ASSUME TermAt(2, 2, WP) = DSub(DSq(Wx), DSq(Wy)) /\ TermAt(2, -2, WP) = DTwo(DMul(Wx, Wy))
ASSUME TermAt(3, 1, WP) = DMul(DSub(DMul(DInt(3), Wt), DInt(2)), Wx)
ASSUME TermAt(3, -1, WP) = DMul(DSub(DMul(DInt(3), Wt), DInt(2)), Wy)
ASSUME TermAt(3, -3, WP) = DSub(DMul(DInt(3), DMul(DSq(Wx), Wy)), DMul(Wy, DSq(Wy)))
ASSUME TermAt(4, 0, WP) = DAdd(DSub(DMul(DInt(6), DSq(Wt)), DMul(DInt(6), Wt)), DOne)
ASSUME RadialAt(4, 2, DShift(DOne, -1)) = DSub(DShift(DOne, -2), DShift(DInt(3), -2))
\* Eval is linear (exact arithmetic on a small grid; the certificates play no role here)
DummySqt == [k \in 1..40 |-> DInt(k)]
Vecs == { <<DInt(1), DInt(0), DInt(-2), DShift(DInt(3), -1), DInt(0), DInt(5)>>,
          <<DInt(0), DInt(7), DInt(1), DInt(-1), DShift(DInt(1), -2), DInt(0)>>,
          <<DInt(2), DInt(2), DInt(0), DInt(0), DInt(-3), DInt(1)>> }
Scal == {DInt(-2), DInt(1), DShift(DInt(3), -2)}
Pts == { <<Wx, Wy>>, <<DShift(DInt(-5), -3), DShift(DInt(1), -1)>>, <<DZero, DZero>> }
LinComb(a, u, b, v) == [k \in 1..Len(u) |-> DAdd(DMul(a, u[k]), DMul(b, v[k]))]
ASSUME \A f \in Families : \A u \in Vecs : \A v \in Vecs : \A a \in Scal : \A b \in Scal : \A p \in Pts :
         Eval(f, LinComb(a, u, b, v), p[1], p[2], DummySqt)
           = DAdd(DMul(a, Eval(f, u, p[1], p[2], DummySqt)), DMul(b, Eval(f, v, p[1], p[2], DummySqt)))

--------------------------------------------------------------------------
(* export for the replay (configuration MC_Zernike_gen.cfg, Init-only)        *)
Pairs == {<<p[1], ZAbs(p[2])>> : p \in {IdxStd[k] : k \in 1..NTERMS} \cup {IdxNoll[k] : k \in 1..NTERMS}
                                       \cup {IdxFringe[k] : k \in 1..NTERMS}}
GenInit == /\ zfam = "standard" /\ zi = 1 /\ zj = 1
           /\ \A f \in Families : PrintT(<<"IDX", f, Idx(f)>>)
           /\ \A p \in Pairs : PrintT(<<"RC", p[1], p[2], RSeq(p[1], p[2]), RAbs1(p[1], p[2])>>)
           /\ \A p \in Pairs : \A k \in 0..8 :
                 PrintT(<<"RV", p[1], p[2], k, RadialAt(p[1], p[2], DShift(DInt(k), -3)),
                          RadialAbsAt(p[1], p[2], DShift(DInt(k), -3))>>)
           /\ \A f \in Families : \A k \in 1..NTERMS :
                 PrintT(<<"N2", f, k, Norm2(f, Idx(f)[k][1], Idx(f)[k][2])>>)
GenSpec == GenInit /\ [][UNCHANGED vars]_vars
=============================================================================
